#!/bin/bash
# Offline setup: make sure hypothesis is importable next to the repository's packages.
set -e
PY=/venv/bin/python
if ! $PY -c "import hypothesis" 2>/dev/null; then
  /venv/bin/pip install --no-index --find-links /opt/veriftools/wheels hypothesis
fi
$PY -c "import hypothesis, numpy, scipy, shapely, h5py; print('setup ok: hypothesis', hypothesis.__version__)"
