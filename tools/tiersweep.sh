#!/bin/bash
# usage: tools/tiersweep.sh <tier> <PID>...   (one line per property; VT_TIME_S / VT_SCALE are honoured by the engine)
cd "$(dirname "$0")/.."
tier=$1; shift
for p in "$@"; do
  s=$(date +%s)
  out=$(./check $p $tier 2>&1); rc=$?
  echo "$p exit=$rc $(( $(date +%s) - s ))s :: $(echo "$out" | grep -E "^$p " | tail -1 | cut -c1-150) $(echo "$out" | grep -c '^VIOLATION') violation line(s)"
  echo "$out" | grep -E "clause|VIOLATION|HARNESS" | cut -c1-400
done
