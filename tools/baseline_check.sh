#!/bin/bash
# Runs the repository's pinned test suite (guard off: there are no hooks) and compares the passing set
# with /root/.vp/BASELINE.json's stable_pass list.  usage: tools/baseline_check.sh [junit-output]
OUT=${1:-/tmp/repo_junit.xml}
cd /repo && /venv/bin/python -m pytest -ra -q -p no:cacheprovider --timeout=900 --continue-on-collection-errors --junitxml=$OUT > /tmp/repo_tests.log 2>&1
/venv/bin/python - "$OUT" <<'PY'
import json, sys, xml.etree.ElementTree as ET
base = set(json.load(open('/root/.vp/BASELINE.json'))['stable_pass'])
passed = set()
for tc in ET.parse(sys.argv[1]).getroot().iter('testcase'):
    if not any(ch.tag in ('failure', 'error', 'skipped') for ch in tc):
        passed.add(f"{tc.get('classname')}::{tc.get('name')}")
missing = sorted(base - passed)
print(f"baseline stable_pass: {len(base)}; passing now: {len(passed)}; baseline tests no longer passing: {len(missing)}")
for m in missing[:20]:
    print("  ", m)
sys.exit(1 if missing else 0)
PY
