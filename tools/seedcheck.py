#!/venv/bin/python
"""Confirm and evaluate one independently written breaking change.

usage: tools/seedcheck.py <PID> <k> [--suite] [--tier quick|thorough] [--also Cxx,Cyy] [--src DIR --srck K]
  reads /tmp/seed_<PID>/_out/patch<k>.diff, demo<k>.py, notes<k>.md
  1. scratch worktree of /repo HEAD: demo must exit 0
  2. apply the patch: demo must exit != 0
  3. run ./check <PID> <tier> (and --also checks) against the patched worktree (VT_REPO)
  4. with --suite: run the repository's test suite on the patched worktree and compare with BASELINE stable_pass
  writes /verif/seeded/<PID>-<k>/{patch.diff, demo.py, notes.md, meta.json}; removes the worktree.
"""
import json, os, shutil, subprocess, sys, xml.etree.ElementTree as ET

VERIF = os.path.dirname(os.path.dirname(os.path.abspath(__file__)))


def sh(cmd, **kw):
    return subprocess.run(cmd, shell=True, capture_output=True, text=True, **kw)


def main():
    pid, k = sys.argv[1].upper(), sys.argv[2]
    suite = "--suite" in sys.argv or "--suite-only" in sys.argv
    suite_only = "--suite-only" in sys.argv
    tier = sys.argv[sys.argv.index("--tier") + 1] if "--tier" in sys.argv else "quick"
    also = sys.argv[sys.argv.index("--also") + 1].split(",") if "--also" in sys.argv else []
    src = sys.argv[sys.argv.index("--src") + 1] if "--src" in sys.argv else f"/tmp/seed_{pid}/_out"
    sk = sys.argv[sys.argv.index("--srck") + 1] if "--srck" in sys.argv else k  # file suffix used by the author
    wt = f"/tmp/sv_{pid}_{k}"
    sh(f"git -C /repo worktree remove --force {wt}")
    r = sh(f"git -C /repo worktree add --detach {wt} HEAD")
    assert r.returncode == 0, r.stderr
    meta = dict(id=f"{pid}-{k}", property=pid, source="independent sub-agent given only the property text and a scratch worktree")
    try:
        env = dict(os.environ, PYTHONPATH=wt, MPLBACKEND="Agg", TQDM_DISABLE="1")
        demo = os.path.join(src, f"demo{sk}.py")
        r0 = subprocess.run(["/venv/bin/python", demo], cwd=wt, env=env, capture_output=True, text=True, timeout=1800)
        meta["demo_without_change_exit"] = r0.returncode
        ra = sh(f"git -C {wt} apply {src}/patch{sk}.diff")
        meta["patch_applies"] = ra.returncode == 0
        if ra.returncode != 0:
            meta["apply_error"] = ra.stderr[-400:]
        r1 = subprocess.run(["/venv/bin/python", demo], cwd=wt, env=env, capture_output=True, text=True, timeout=1800)
        meta["demo_with_change_exit"] = r1.returncode
        meta["demo_with_change_tail"] = (r1.stdout + r1.stderr)[-600:]
        meta["confirmed"] = bool(meta["patch_applies"] and r0.returncode == 0 and r1.returncode != 0)
        results = {}
        for p in ([] if suite_only else [pid] + also):
            out = f"{wt}/_vtout_{p}"
            e2 = dict(os.environ, VT_REPO=wt, VT_OUT_DIR=out)
            rc = subprocess.run([os.path.join(VERIF, "check"), p, tier], env=e2, capture_output=True, text=True, timeout=7200)
            clauses = [l.strip()[:200] for l in rc.stdout.splitlines() if l.strip().startswith("clause")]
            results[p] = dict(exit=rc.returncode, verdict="CAUGHT" if rc.returncode == 1 else ("MISSED" if rc.returncode == 0 else "ERROR"),
                              clauses=clauses[:4], tail=rc.stdout[-300:] if rc.returncode != 1 else "")
        if not suite_only:
            meta["checks"] = results
            meta["tier"] = tier
        if suite:
            junit = f"{wt}/_junit.xml"
            subprocess.run(f"cd {wt} && PYTHONPATH={wt} MPLBACKEND=Agg /venv/bin/python -m pytest -q -p no:cacheprovider --timeout=900 --continue-on-collection-errors --junitxml={junit} tdgl > {wt}/_tests.log 2>&1", shell=True)
            base = set(json.load(open("/root/.vp/BASELINE.json"))["stable_pass"])
            passed = set()
            for tc in ET.parse(junit).getroot().iter("testcase"):
                if not any(ch.tag in ("failure", "error", "skipped") for ch in tc):
                    passed.add(f"{tc.get('classname')}::{tc.get('name')}")
            missing = sorted(base - passed)
            meta["suite"] = dict(baseline=len(base), passing=len(passed), baseline_tests_broken=missing[:10], ok=not missing)
        dst = os.path.join(VERIF, "seeded", f"{pid}-{k}")
        os.makedirs(dst, exist_ok=True)
        shutil.copy(f"{src}/patch{sk}.diff", f"{dst}/patch.diff")
        shutil.copy(demo, f"{dst}/demo.py")
        if os.path.exists(f"{src}/notes{sk}.md"):
            shutil.copy(f"{src}/notes{sk}.md", f"{dst}/notes.md")
        prev = {}
        if os.path.exists(f"{dst}/meta.json"):
            prev = json.load(open(f"{dst}/meta.json"))
        prev.update(meta)
        json.dump(prev, open(f"{dst}/meta.json", "w"), indent=1)
        print(json.dumps({k_: prev[k_] for k_ in ("id", "confirmed", "checks", "suite") if k_ in prev}, indent=1)[:1500])
    finally:
        sh(f"git -C /repo worktree remove --force {wt}")


if __name__ == "__main__":
    main()
