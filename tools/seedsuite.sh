#!/bin/bash
# Confirm that the repository's own test suite still passes with each seeded change (4 at a time).
cd "$(dirname "$0")/.."
ls -d seeded/C*-* | sed 's#seeded/##' | while read id; do
  if ! grep -q '"suite"' seeded/$id/meta.json; then echo $id; fi
done | xargs -P ${JOBS:-4} -I{} bash -c 'pid=$(echo {} | cut -d- -f1); k=$(echo {} | cut -d- -f2); extra=""; if [ -d /tmp/seed2_$pid/_out ] && [ "$k" = 3 ]; then extra="--src /tmp/seed2_$pid/_out --srck 1"; fi; tools/seedcheck.py $pid $k --suite-only $extra > /tmp/seedsuite_{}.log 2>&1'
pkill -f "tdgl.visualize --input"
