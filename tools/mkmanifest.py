#!/venv/bin/python
"""Regenerate MANIFEST.json from the property modules (single source of truth)."""
import importlib, json, os, sys

VERIF = os.path.dirname(os.path.dirname(os.path.abspath(__file__)))
sys.path[:0] = ["/repo", VERIF]
props = [json.loads(l) for l in open(os.path.join(VERIF, "properties.jsonl"))]
checks, na = [], []
NOT_YET = {}
for p in props:
    pid = p["id"]
    path = os.path.join(VERIF, "vt", "props", pid.lower() + ".py")
    if not os.path.exists(path):
        na.append(dict(property_id=pid, reason=NOT_YET.get(pid, "check not built yet in this round (design in DESIGN.md section 5); nothing is claimed for it")))
        continue
    mod = importlib.import_module(f"vt.props.{pid.lower()}")
    checks.append(dict(
        property_id=pid,
        quick_cmd=f"./check {pid} quick",
        thorough_cmd=f"./check {pid} thorough",
        evidence_file=f"evidence/{pid}.json",
        replay_cmd_template="./check --replay {path}",
        engine="vt",
        level_claimed=dict(category=mod.LEVEL, text=mod.LEVEL_TEXT, design_ref=f"DESIGN.md section 5, {pid}"),
        level_note=mod.LEVEL_NOTE,
        technique=mod.TECHNIQUE,
    ))
manifest = dict(
    version=1,
    setup_cmd="./setup.sh",
    hooks=dict(
        guard="PY_TDGL_VERIF",
        enable="no source hooks: checks import tdgl from /repo's working tree (PYTHONPATH=/repo) and wrap public methods from the harness; the guard variable is exported by ./check but read by nothing in the repository",
        baseline_off_cmd="cd /repo && /venv/bin/python -m pytest -ra -q -p no:cacheprovider --timeout=900 --continue-on-collection-errors --junitxml=<file>",
        source_commits=[],
        add_only=True,
    ),
    engines=[dict(name="vt", path="vt/engine.py", serves_properties=[c["property_id"] for c in checks],
                  kind_free_text="Hypothesis 6.168 driver (seeded by VERIF_SEED): collect-all then bucket by clause then shrink; sharded over worker processes; exhaustive grids where the bounded space is finite; replay files are JSON case specs")],
    checks=checks,
    notes="All checks: ./check <id> quick|thorough; exit 0 held / 1 VIOLATION / 2 harness error. Known and fixed findings: KNOWN_FINDINGS.txt. Sensitivity mutants: mutants/*.json via tools/muttest.py; independent seeded changes: seeded/.",
    not_applicable=na,
)
json.dump(manifest, open(os.path.join(VERIF, "MANIFEST.json"), "w"), indent=1)
print(f"{len(checks)} checks, {len(na)} not applicable")
try:
    import jsonschema
    jsonschema.validate(manifest, json.load(open("/root/.vp/MANIFEST.schema.json")))
    print("manifest validates")
except ImportError:
    print("jsonschema not importable here; validate with python3-vt")
