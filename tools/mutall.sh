#!/bin/bash
# Sensitivity sweep: every mutant of every property against the quick tier.  Writes mutants/RESULTS.txt.
cd "$(dirname "$0")/.."
OUT=mutants/RESULTS.txt
: > $OUT.tmp
for f in mutants/C*.json; do
  pid=$(basename $f .json)
  MUT_JOBS=${MUT_JOBS:-3} VT_WORKERS=${VT_WORKERS:-3} timeout 5400 tools/muttest.py $pid quick 2>/dev/null | grep -E "^C[0-9]+ " | cut -c1-220 >> $OUT.tmp
done
mv $OUT.tmp $OUT
