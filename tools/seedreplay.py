#!/venv/bin/python
"""Re-run the quick checks against every kept seeded change (regression of the checks themselves).

usage: tools/seedreplay.py [id-substring ...]     e.g. tools/seedreplay.py C07 C13-3
For each seeded/<PID>-<k>/: scratch worktree of /repo HEAD + patch.diff, then ./check <PID> quick (and the other checks named in
meta.json's "checks") with VT_REPO pointing at it.  Prints one line per change and writes seeded/REPLAY.txt.  Nothing is kept.
"""
import json, os, subprocess, sys

VERIF = os.path.dirname(os.path.dirname(os.path.abspath(__file__)))


def main():
    want = sys.argv[1:]
    ids = sorted(d for d in os.listdir(os.path.join(VERIF, "seeded")) if os.path.isdir(os.path.join(VERIF, "seeded", d)))
    if want:
        ids = [i for i in ids if any(w in i for w in want)]
    lines = []
    for sid in ids:
        d = os.path.join(VERIF, "seeded", sid)
        meta = json.load(open(os.path.join(d, "meta.json")))
        pid = meta["property"]
        wt = f"/tmp/sr_{sid}"
        subprocess.run(f"git -C /repo worktree remove --force {wt}", shell=True, capture_output=True)
        r = subprocess.run(f"git -C /repo worktree add --detach {wt} HEAD && git -C {wt} apply {d}/patch.diff", shell=True, capture_output=True, text=True)
        try:
            if r.returncode != 0:
                lines.append(f"{sid}: patch does not apply to the current tree ({r.stderr.strip()[-120:]})")
                continue
            verdicts = []
            for p in [pid] + [c for c in meta.get("checks", {}) if c != pid]:
                env = dict(os.environ, VT_REPO=wt, VT_OUT_DIR=f"{wt}/_vt_{p}")
                rc = subprocess.run([os.path.join(VERIF, "check"), p, "quick"], env=env, capture_output=True, text=True)
                verdicts.append(f"{p}:{'CAUGHT' if rc.returncode == 1 else ('MISSED' if rc.returncode == 0 else 'ERROR')}")
            lines.append(f"{sid}: " + " ".join(verdicts))
        finally:
            subprocess.run(f"git -C /repo worktree remove --force {wt}", shell=True, capture_output=True)
        print(lines[-1], flush=True)
    if not want:
        with open(os.path.join(VERIF, "seeded", "REPLAY.txt"), "w") as f:
            f.write("\n".join(lines) + "\n")


if __name__ == "__main__":
    main()
