#!/bin/bash
# Run every registered quick check once on the current tree; prints one line per property.
cd "$(dirname "$0")/.."
for i in $(seq -w 1 20); do
  p=C$i
  s=$(date +%s)
  out=$(./check $p ${1:-quick} 2>&1); rc=$?
  echo "$p exit=$rc $(( $(date +%s) - s ))s :: $(echo "$out" | grep -E "^$p " | tail -1 | cut -c1-150) $(echo "$out" | grep -c '^VIOLATION') violation line(s)"
done
