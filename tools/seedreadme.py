#!/venv/bin/python
"""Regenerate seeded/README.md from seeded/*/meta.json."""
import glob, json, os
VERIF = os.path.dirname(os.path.dirname(os.path.abspath(__file__)))
rows = []
for f in sorted(glob.glob(os.path.join(VERIF, "seeded", "*", "meta.json"))):
    m = json.load(open(f))
    checks = m.get("checks", {})
    verdicts = "; ".join(f"{p} {v['verdict']}" + (f" ({v['clauses'][0].split(':')[0].replace('clause ', '')})" if v.get("clauses") else "") for p, v in checks.items())
    rows.append(f"| {m['id']} | {m.get('summary', '').replace('|', '/')} | {m.get('needs', '').replace('|', '/')} | {'yes' if m.get('confirmed') else 'NO'} | "
                f"{'pass' if m.get('suite', {}).get('ok') else ('n/a' if 'suite' not in m else 'BROKEN')} | {verdicts} | {m.get('strengthened', '')} |")
txt = """# Independently seeded breaking changes

Each directory holds `patch.diff` (apply with `git -C /repo apply <file>`, undo with `git -C /repo checkout -- .`), the
author's demonstration `demo.py` (exit 0 on the unchanged tree, non-zero with the change), the author's `notes.md`, and
`meta.json` (what was run to confirm it and which checks catch it).  The authors were fresh sub-agents that saw only
the text of one property and a scratch worktree - nothing from /verif.  `tools/seedcheck.py <PID> <k> [--suite]`
re-confirms a change and re-runs the checks against it in a scratch worktree (`VT_REPO`).

| id | change | needs | demo confirmed | existing suite | checks (quick tier unless noted) | strengthened |
|----|--------|-------|----------------|----------------|----------------------------------|--------------|
""" + "\n".join(rows) + "\n"
open(os.path.join(VERIF, "seeded", "README.md"), "w").write(txt)
print(f"{len(rows)} seeded changes")
