#!/venv/bin/python
"""Sensitivity runs: apply each mutant of mutants/<PID>.json to a scratch copy of the
repository's package and run the property's check against it (VT_REPO=<copy>).

usage: tools/muttest.py C02 [quick|thorough] [name-substring]
A mutant is {"name":..., "file": "tdgl/...py", "old": "...", "new": "..."} (exact, unique text).
Prints one line per mutant: CAUGHT / MISSED / INVALID.  Scratch copies are removed.
"""
import json, os, shutil, subprocess, sys, tempfile
from concurrent.futures import ThreadPoolExecutor

VERIF = os.path.dirname(os.path.dirname(os.path.abspath(__file__)))
REPO = "/repo"


def run_one(pid, tier, m):
    tmp = tempfile.mkdtemp(prefix=f"vtmut_{pid}_")
    try:
        shutil.copytree(os.path.join(REPO, "tdgl"), os.path.join(tmp, "tdgl"),
                        ignore=shutil.ignore_patterns("__pycache__", "test"))
        edits = m.get("edits") or [m]
        for e in edits:
            path = os.path.join(tmp, e["file"])
            src = open(path).read()
            if src.count(e["old"]) != 1:
                return m["name"], "INVALID", f"pattern occurs {src.count(e['old'])}x in {e['file']}"
            open(path, "w").write(src.replace(e["old"], e["new"]))
        env = dict(os.environ, VT_REPO=tmp, VT_OUT_DIR=os.path.join(tmp, "out"))
        env.setdefault("VT_WORKERS", "2")
        p = subprocess.run([os.path.join(VERIF, "check"), pid, tier], env=env,
                           capture_output=True, text=True, timeout=1500)
        viol = [l for l in p.stdout.splitlines() if l.startswith("VIOLATION")]
        clauses = [l.strip() for l in p.stdout.splitlines() if l.strip().startswith("clause")]
        if p.returncode == 1 and viol:
            return m["name"], "CAUGHT", "; ".join(c[:110] for c in clauses[:3])
        return m["name"], "MISSED" if p.returncode == 0 else f"EXIT{p.returncode}", (p.stdout[-300:] + p.stderr[-600:])
    finally:
        shutil.rmtree(tmp, ignore_errors=True)


def main():
    pid = sys.argv[1].upper()
    tier = sys.argv[2] if len(sys.argv) > 2 else "quick"
    filt = sys.argv[3] if len(sys.argv) > 3 else ""
    muts = [m for m in json.load(open(os.path.join(VERIF, "mutants", f"{pid}.json"))) if filt in m["name"]]
    with ThreadPoolExecutor(max_workers=int(os.environ.get("MUT_JOBS", "4"))) as ex:
        for name, verdict, info in ex.map(lambda m: run_one(pid, tier, m), muts):
            print(f"{pid} {verdict:8s} {name} :: {info}")


if __name__ == "__main__":
    main()
