"""Child process of the C09 check: build, mesh, solve and post-process one case; print digests as JSON."""
import hashlib
import json
import logging
import os
import sys
import warnings

logging.disable(logging.CRITICAL)
warnings.filterwarnings("ignore")


def main():
    spec = json.load(open(sys.argv[1]))
    out_name = sys.argv[2]
    import h5py
    import numpy as np

    from vt import build

    dev = build.make_device(spec["device"], cache=False)
    mesh = dev.mesh
    hm = hashlib.sha256()
    for a in (mesh.sites, mesh.elements, mesh.boundary_indices, mesh.areas, mesh.dual_sites, mesh.edge_mesh.edges,
              mesh.edge_mesh.dual_edge_lengths, mesh.edge_mesh.edge_lengths, mesh.edge_mesh.centers, mesh.edge_mesh.boundary_edge_indices):
        a = np.ascontiguousarray(a)
        hm.update(str(a.dtype).encode() + str(a.shape).encode() + a.tobytes())
    A = build.make_vector_potential(spec["field"], dev, build.make_options(spec["options"], dev).field_units, build.make_options(spec["options"], dev).solve_time)
    eps = build.make_epsilon(spec.get("epsilon"))

    def run(name):
        opts = build.make_options(spec["options"], dev, output_file=name)
        solver = build.make_solver(dev, opts, applied_vector_potential=A, terminal_currents=build.make_currents(spec["currents"], opts.solve_time),
                                   disorder_epsilon=eps)
        return solver.solve()

    def digest(path):
        hf = hashlib.sha256()
        frames = []
        with h5py.File(path, "r") as f:
            for key in sorted(f["data"].keys(), key=int):
                g = f["data"][key]
                h1 = hashlib.sha256()
                for a in sorted(g.attrs):
                    if a == "timestamp":
                        continue
                    h1.update(a.encode() + repr(np.asarray(g.attrs[a]).tolist()).encode())

                def visit(name, obj, h1=h1):
                    if isinstance(obj, h5py.Dataset):
                        arr = np.ascontiguousarray(obj[()])
                        h1.update(name.encode() + str(arr.dtype).encode() + str(arr.shape).encode() + arr.tobytes())

                g.visititems(visit)
                frames.append(h1.hexdigest()[:16])
                hf.update(h1.digest())
            for name in sorted(f):
                if isinstance(f[name], h5py.Dataset):
                    arr = np.ascontiguousarray(f[name][()])
                    hf.update(name.encode() + arr.tobytes())
        return hf.hexdigest(), frames

    try:
        sol = run(out_name)
    except RuntimeError as exc:
        print(json.dumps(dict(status="refused", message=str(exc)[:80], mesh=hm.hexdigest())))
        return
    file_digest, frames = digest(sol.path)
    # the same simulation once more in the same process, with the same device and parameter objects, to another file
    again = None
    if len(sys.argv) > 3 and sys.argv[3] == "repeat":
        again = digest(run("again_" + os.path.basename(out_name)).path)[0]
    # post-processing through the parallel kernels
    pts = np.array([[0.1, 0.2, 1.0], [-0.7, 0.4, 0.5], [1.3, -0.2, -0.8]]) * spec["device"]["layer"]["xi"] * 3
    hp = hashlib.sha256()
    B = sol.field_at_position(pts, vector=True, units="T", with_units=False)
    Avec = sol.vector_potential_at_position(pts, units="T * m", with_units=False)
    hp.update(np.ascontiguousarray(B).tobytes() + np.ascontiguousarray(Avec).tobytes())
    hp.update(np.ascontiguousarray(sol.dynamics.dt).tobytes())
    print(json.dumps(dict(status="ok", mesh=hm.hexdigest(), file=file_digest, again=again, frames=frames, post=hp.hexdigest(),
                          nframes=len(frames), nsteps=int(len(sol.dynamics.dt)), threads=os.environ.get("NUMBA_NUM_THREADS"))))


if __name__ == "__main__":
    main()
