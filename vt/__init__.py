"""Property-based verification harness for loganbvh/py-tdgl (see /verif/DESIGN.md)."""
