"""Generated meshes and fields for the operator-level properties (C03, C04, C10)."""
from __future__ import annotations

import numpy as np
from hypothesis import strategies as st
from scipy.spatial import Delaunay

from . import build, gen

# ----------------------------------------------------------------------------- strategies


@st.composite
def mesh_spec(draw, tier="quick", sources=("device", "grid", "delaunay", "ring"), synthetic=True):
    src = draw(st.sampled_from(list(sources)))
    big = tier != "quick"
    if src == "device":
        d = draw(gen.device(terminals=(0, 3), holes=(0, 2), probes=(0,), film_kinds=("box", "ellipse", "union"),
                            size=(3.5, 6.0 if not big else 9.0)).filter(gen.valid_device))
        spec = dict(src="device", device=d)
    elif src == "grid":
        nx = draw(st.integers(3, 9 if not big else 16))
        ny = draw(st.integers(3, 8 if not big else 14))
        spec = dict(src="grid", nx=nx, ny=ny, h=draw(gen.rf(0.3, 2.0)),
                    jitter=draw(st.one_of(st.just(0.0), gen.rf(0.0, 0.3))), k=[draw(gen.rf(0.3, 3.0)) for _ in range(4)],
                    diag=draw(st.sampled_from(["delaunay", "regular"])))
    elif src == "delaunay":
        # one point per cell of a coarse grid, offset inside the cell: distinct, well separated
        nx = draw(st.integers(3, 7 if not big else 12))
        ny = draw(st.integers(3, 6 if not big else 10))
        offs = [[draw(st.floats(0.15, 0.85)), draw(st.floats(0.15, 0.85))] for _ in range(nx * ny)]
        spec = dict(src="delaunay", nx=nx, ny=ny, offs=offs, h=draw(gen.rf(0.3, 2.0)))
    else:
        spec = dict(src="ring", nr=draw(st.integers(2, 5 if not big else 8)), nt=draw(st.integers(8, 20 if not big else 36)),
                    r0=draw(gen.rf(0.5, 2.0)), dr=draw(gen.rf(0.3, 1.0)), twist=draw(gen.rf(0.0, 0.4)))
    if src != "device" and draw(st.integers(0, 3)) == 0:
        # coordinates in very small / very large units: the identities are scale free
        spec["scale"] = draw(gen.logu(-6, 8))
    if synthetic and src != "device" and draw(st.integers(0, 2)) == 0:
        spec["weights"] = dict(a=[draw(gen.rf(0.0, 0.6)), draw(gen.rf(0.3, 3.0)), draw(gen.rf(0.0, 6.0))],
                               s=[draw(gen.rf(0.0, 0.6)), draw(gen.rf(0.3, 3.0)), draw(gen.rf(0.0, 6.0))])
    return spec


@st.composite
def field_coefs(draw, n=1):
    """Coefficients of a smooth basis + one spike; turned into an array by make_field."""
    return [dict(amp=draw(gen.rf(0.1, 2.0)), k=[draw(gen.rf(-3.0, 3.0)), draw(gen.rf(-3.0, 3.0))],
                 ph=draw(gen.rf(0.0, 6.28)), spike=draw(st.integers(0, 10 ** 6)), samp=draw(gen.rf(-2.0, 2.0)),
                 off=draw(gen.rf(-1.0, 1.0))) for _ in range(n)]


def make_field(c, pts):
    """real field on points from coefficient dict c"""
    pts = np.asarray(pts)
    f = c["off"] + c["amp"] * np.sin(pts[:, 0] * c["k"][0] + pts[:, 1] * c["k"][1] + c["ph"])
    f = f.copy()
    f[c["spike"] % len(pts)] += c["samp"]
    return f


# ----------------------------------------------------------------------------- building


def make_mesh(spec):
    """tdgl.finite_volume.Mesh from a mesh spec; returns (mesh, info) or (None, reason)."""
    from tdgl.finite_volume.edge_mesh import EdgeMesh
    from tdgl.finite_volume.mesh import Mesh

    info = dict(src=spec["src"], holes=0)
    if spec["src"] == "device":
        try:
            dev = build.make_device(spec["device"])
        except ValueError as exc:
            if "Malformed Voronoi" in str(exc):
                return None, "library refused the mesh (malformed Voronoi cell)"
            raise
        info["holes"] = len(spec["device"].get("holes", []))
        info["device"] = dev
        return dev.mesh, info
    if spec["src"] == "grid":
        nx, ny, h = spec["nx"], spec["ny"], spec["h"]
        I, J = np.meshgrid(np.arange(nx), np.arange(ny), indexing="ij")
        k = spec["k"]
        jx = spec["jitter"] * np.sin(k[0] * I + k[1] * J)
        jy = spec["jitter"] * np.cos(k[2] * I + k[3] * J)
        # keep the outline straight so that the hull is the rectangle
        jx[[0, -1], :] = 0
        jy[:, [0, -1]] = 0
        pts = np.stack([(I + jx).ravel(), (J + jy).ravel()], axis=1) * h
        if spec["diag"] == "regular":
            tris = []
            idx = lambda i, j: i * ny + j  # noqa: E731
            for i in range(nx - 1):
                for j in range(ny - 1):
                    a, b, c, d = idx(i, j), idx(i + 1, j), idx(i + 1, j + 1), idx(i, j + 1)
                    if (i + j) % 2 == 0:
                        tris += [[a, b, c], [a, c, d]]
                    else:
                        tris += [[a, b, d], [b, c, d]]
            tris = np.array(tris)
        else:
            tris = Delaunay(pts).simplices
    elif spec["src"] == "delaunay":
        nx, ny, h = spec["nx"], spec["ny"], spec["h"]
        pts = []
        for i in range(nx):
            for j in range(ny):
                ox, oy = spec["offs"][i * ny + j]
                pts.append([(i + ox) * h, (j + oy) * h])
        pts = np.array(pts)
        tris = Delaunay(pts).simplices
    else:
        nr, nt = spec["nr"], spec["nt"]
        pts = []
        for a in range(nr):
            r = spec["r0"] + a * spec["dr"]
            for b in range(nt):
                th = 2 * np.pi * (b + spec["twist"] * a) / nt
                pts.append([r * np.cos(th), r * np.sin(th)])
        pts = np.array(pts)
        tris = []
        for a in range(nr - 1):
            for b in range(nt):
                p, q = a * nt + b, a * nt + (b + 1) % nt
                r_, s = (a + 1) * nt + b, (a + 1) * nt + (b + 1) % nt
                tris += [[p, r_, s], [p, s, q]]
        tris = np.array(tris)
        info["holes"] = 1
    if spec.get("scale"):
        pts = pts * float(spec["scale"])
        info["scaled"] = True
    # drop degenerate (zero-area) triangles that Delaunay may emit on collinear hull points
    p = pts[tris]
    area = 0.5 * ((p[:, 1, 0] - p[:, 0, 0]) * (p[:, 2, 1] - p[:, 0, 1]) - (p[:, 2, 0] - p[:, 0, 0]) * (p[:, 1, 1] - p[:, 0, 1]))
    tris = tris[np.abs(area) > 1e-9 * np.abs(area).max()]
    try:
        mesh = Mesh.from_triangulation(pts, tris)
    except ValueError as exc:
        if "Malformed Voronoi" in str(exc):
            return None, "library refused the mesh (malformed Voronoi cell)"
        raise
    if not (np.all(np.isfinite(mesh.areas)) and np.all(mesh.areas > 0) and np.all(np.isfinite(mesh.edge_mesh.dual_edge_lengths))):
        return None, "non-positive cell area (outside the property's quantifier)"
    if spec.get("weights"):
        w = spec["weights"]
        em = mesh.edge_mesh
        fa = 1 + w["a"][0] * np.sin(w["a"][1] * mesh.sites[:, 0] + w["a"][2])
        fs = 1 + w["s"][0] * np.cos(w["s"][1] * em.centers[:, 1] + w["s"][2])
        em2 = EdgeMesh(em.centers, em.edges, em.boundary_edge_indices, em.directions, em.edge_lengths,
                       np.maximum(em.dual_edge_lengths, 1e-3 * em.edge_lengths.mean()) * fs)
        mesh = Mesh(mesh.sites, mesh.elements, mesh.boundary_indices, areas=mesh.areas * fa,
                    dual_sites=mesh.dual_sites, edge_mesh=em2, voronoi_polygons=mesh.voronoi_polygons)
        info["synthetic"] = True
    return mesh, info


def is_connected(mesh):
    import scipy.sparse as sp
    from scipy.sparse.csgraph import connected_components

    e = mesh.edge_mesh.edges
    n = len(mesh.sites)
    g = sp.coo_matrix((np.ones(len(e)), (e[:, 0], e[:, 1])), shape=(n, n))
    return connected_components(g, directed=False)[0] == 1
