"""Hypothesis driver: collect -> bucket -> shrink, known findings, replay, evidence.

A property module (vt/props/cXX.py) provides

    PID, TITLE, LEVEL, RULE, ASSUMPTIONS, TECHNIQUE
    budget(tier)      -> dict(max_examples=int, workers=int, time_s=float, min_cases=int)
    strategy(tier)    -> hypothesis strategy of JSON-serialisable case specs   (optional)
    grid(tier)        -> list of case specs enumerated exhaustively           (optional)
    check_case(spec)  -> Result

``check_case`` is a pure function of the spec and of the code in the repository.
"""

from __future__ import annotations

import hashlib
import importlib
import json
import os
import sys
import time
import traceback
from dataclasses import dataclass, field
from typing import Any, Dict, List, Optional, Tuple

VERIF_DIR = os.path.dirname(os.path.dirname(os.path.abspath(__file__)))
REPO_DIR = os.path.abspath(os.environ.get("VT_REPO", "/repo"))
# evidence/ and replays/ go here; sensitivity (mutation) runs point it at a scratch directory
OUT_DIR = os.path.abspath(os.environ.get("VT_OUT_DIR", VERIF_DIR))


# --------------------------------------------------------------------------- results


@dataclass
class Result:
    violations: List[Tuple[str, str]] = field(default_factory=list)
    labels: List[str] = field(default_factory=list)
    nontrivial: bool = False
    stats: Dict[str, float] = field(default_factory=dict)

    def fail(self, clause: str, detail: str = "") -> None:
        self.violations.append((clause, str(detail)[:600]))

    def label(self, *names: str) -> None:
        for n in names:
            if n not in self.labels:
                self.labels.append(n)

    def stat(self, name: str, value: float) -> None:
        """Record a residual; the evidence keeps the worst (largest) one."""
        try:
            value = float(value)
        except Exception:
            return
        if value != value:  # NaN
            value = float("inf")
        if name not in self.stats or value > self.stats[name]:
            self.stats[name] = value


class HarnessError(Exception):
    pass


def spec_hash(spec: Any) -> str:
    return hashlib.sha256(
        json.dumps(spec, sort_keys=True, default=str).encode()
    ).hexdigest()[:20]


def _classify_exception(exc: BaseException) -> str:
    """'repo' if the deepest frame owned by either side belongs to the code under test."""
    tb = traceback.extract_tb(exc.__traceback__)
    owner = "harness"
    for fr in tb:
        fn = os.path.abspath(fr.filename)
        if fn.startswith(os.path.join(REPO_DIR, "tdgl")):
            owner = "repo"
        elif fn.startswith(os.path.join(VERIF_DIR, "vt")):
            owner = "harness"
    return owner


def evaluate(mod, spec) -> Result:
    """Run check_case; an exception escaping from inside the code under test is a
    violation of clause <PID>.unexpected_exception, one from the harness is a HarnessError."""
    try:
        res = mod.check_case(spec)
    except (KeyboardInterrupt, SystemExit):
        raise
    except Exception as exc:  # noqa: BLE001
        if type(exc).__name__ == "LibraryRefused":
            res = Result()
            res.label(f"discarded: {exc}")
            return res
        return _escaped(mod, spec, exc)
    except BaseException as exc:  # noqa: BLE001
        return _escaped(mod, spec, exc)
    if not isinstance(res, Result):
        raise HarnessError("check_case did not return a Result")
    return res


def _escaped(mod, spec, exc):
    if True:
        owner = _classify_exception(exc)
        text = "".join(traceback.format_exception(type(exc), exc, exc.__traceback__))
        if owner == "repo":
            res = Result()
            res.fail(
                f"{mod.PID}.unexpected_exception",
                f"{type(exc).__name__}: {exc} :: {text[-400:]}",
            )
            res.label("unexpected_exception")
            return res
        raise HarnessError(f"harness error on spec {json.dumps(spec, default=str)[:2000]}\n{text}")


# --------------------------------------------------------------------------- known findings


@dataclass
class Known:
    pid: str
    clause: str
    where: Dict[str, str]
    text: str
    hits: int = 0


def _flatten(obj: Any, prefix: str = "") -> Dict[str, str]:
    out: Dict[str, str] = {}
    if isinstance(obj, dict):
        for k, v in obj.items():
            out.update(_flatten(v, f"{prefix}{k}."))
    elif isinstance(obj, list):
        for i, v in enumerate(obj):
            out.update(_flatten(v, f"{prefix}{i}."))
        out[prefix.rstrip(".") + ".len"] = str(len(obj))
    else:
        out[prefix.rstrip(".")] = json.dumps(obj) if not isinstance(obj, str) else obj
    return out


def load_known(pid: str) -> List[Known]:
    path = os.path.join(VERIF_DIR, "KNOWN_FINDINGS.txt")
    out: List[Known] = []
    if not os.path.exists(path):
        return out
    for line in open(path):
        line = line.strip()
        if not line.startswith("known:"):
            continue  # 'fixed:' entries and comments suppress nothing
        head, _, text = line[len("known:"):].partition("::")
        fields = dict(tok.split("=", 1) for tok in head.split() if "=" in tok)
        if fields.get("property") != pid:
            continue
        where = {}
        if fields.get("where"):
            for cond in fields["where"].split(","):
                k, _, v = cond.partition(":")
                where[k] = v
        out.append(Known(pid, fields.get("clause", ""), where, text.strip()))
    return out


def match_known(known: List[Known], clause: str, spec: Any) -> Optional[Known]:
    flat = None
    for k in known:
        if k.clause != clause:
            continue
        if k.where:
            if flat is None:
                flat = _flatten(spec)
            if not all(flat.get(f) == v for f, v in k.where.items()):
                continue
        return k
    return None


# --------------------------------------------------------------------------- driving


def _hyp_settings(max_examples: int, shrink: bool):
    from hypothesis import HealthCheck, Phase, Verbosity, settings

    phases = [Phase.generate] + ([Phase.shrink] if shrink else [])
    return settings(
        max_examples=max_examples,
        database=None,
        deadline=None,
        derandomize=False,
        report_multiple_bugs=False,
        phases=phases,
        verbosity=Verbosity.quiet,
        suppress_health_check=[
            HealthCheck.too_slow,
            HealthCheck.data_too_large,
            HealthCheck.large_base_example,
        ],
    )


class _TimeUp(BaseException):
    """raised inside the Hypothesis body when the time budget of a shard is used up"""


def _drive(mod, tier, seed, max_examples, t_end, on_case, fail_pred=None, shrink=False):
    """Run the module's strategy under Hypothesis.  ``on_case(spec)`` returns the Result.
    With ``fail_pred`` the body raises for matching cases so that Hypothesis shrinks."""
    import hypothesis
    from hypothesis import given

    strat = mod.strategy(tier)
    state = {"skipped": 0, "last_fail": None, "calls": 0}

    @hypothesis.seed(seed)
    @_hyp_settings(max_examples, shrink)
    @given(strat)
    def body(spec):
        if time.time() > t_end:
            if fail_pred is None:
                # stop generating altogether (generation of the remaining examples alone can take longer than the budget);
                # a BaseException that is not an Exception passes through Hypothesis untouched
                raise _TimeUp()
            state["skipped"] += 1
            return
        state["calls"] += 1
        res = on_case(spec)
        if fail_pred is not None and fail_pred(spec, res):
            state["last_fail"] = spec
            raise AssertionError("violation")

    try:
        body()
    except _TimeUp:
        state["skipped"] = max(0, int(max_examples) - state["calls"])
    except AssertionError:
        pass
    except BaseException as exc:  # noqa: BLE001
        # with a failing body Hypothesis may report Flaky / exception groups (e.g. when the time budget makes the
        # body return early on a re-run); the last failing spec recorded so far is still a valid reproduction
        if fail_pred is None or isinstance(exc, (KeyboardInterrupt, SystemExit, HarnessError)):
            raise
    return state


def corpus_specs(pid):
    """Regression corpus: shrunk specs of past findings (corpus/<PID>/*.json), replayed on every run."""
    import glob

    out = []
    for f in sorted(glob.glob(os.path.join(VERIF_DIR, "corpus", pid, "*.json"))):
        with open(f) as fh:
            d = json.load(fh)
        out.append(d["spec"] if isinstance(d, dict) and "spec" in d and "property_id" in d else d)
    return out


def grid_cases(mod, tier):
    cases = list(mod.grid(tier)) if hasattr(mod, "grid") else []
    return cases + corpus_specs(mod.PID)


def _quiet_stderr():
    """tqdm progress bars of the code under test go to fd 2; keep the logs readable."""
    if os.environ.get("VT_DEBUG"):
        return
    try:
        devnull = os.open(os.devnull, os.O_WRONLY)
        os.dup2(devnull, 2)
    except OSError:
        pass


def _shard(args):
    """Worker: run one shard; returns a list of compact records."""
    pid, tier, seed, shard, nshards, max_examples, time_s, grid_mode = args
    os.environ.setdefault("NUMBA_NUM_THREADS", "1")
    import logging
    import warnings

    logging.disable(logging.CRITICAL)
    warnings.filterwarnings("ignore")
    _quiet_stderr()
    mod = importlib.import_module(f"vt.props.{pid.lower()}")
    t_end = time.time() + time_s
    records: List[dict] = []
    seen: Dict[str, int] = {}
    skipped = 0

    def on_case(spec):
        h = spec_hash(spec)
        if h in seen:
            return records[seen[h]]["_res"]
        infl = os.environ.get("VT_INFLIGHT_DIR")
        if infl:
            try:
                with open(os.path.join(infl, f"inflight_{seed}.json"), "w") as f:
                    json.dump(spec, f, default=str)
            except OSError:
                pass
        res = evaluate(mod, spec)
        seen[h] = len(records)
        records.append(
            dict(
                h=h,
                spec=spec,
                viol=list(res.violations),
                labels=list(res.labels),
                nt=bool(res.nontrivial),
                stats=dict(res.stats),
                seed=seed,
                grid=bool(grid_mode),
                _res=res,
            )
        )
        return res

    if grid_mode:
        cases = grid_cases(mod, tier)
        for i, spec in enumerate(cases):
            if i % nshards != shard:
                continue
            if time.time() > t_end:
                skipped += 1
                continue
            on_case(spec)
    else:
        st = _drive(mod, tier, seed, max_examples, t_end, on_case)
        skipped = st["skipped"]

    keep_specs = 6
    out = []
    for i, r in enumerate(records):
        r = dict(r)
        r.pop("_res")
        if not r["viol"] and i >= keep_specs:
            r["spec"] = None
        out.append(r)
    return dict(records=out, skipped=skipped)


def _shard_entry(job, outfile):
    import pickle

    try:
        out = _shard(job)
        payload = ("ok", out)
    except HarnessError as exc:
        payload = ("harness", str(exc))
    except BaseException:  # noqa: BLE001
        payload = ("harness", traceback.format_exc())
    with open(outfile + ".tmp", "wb") as f:
        pickle.dump(payload, f)
    os.replace(outfile + ".tmp", outfile)


def _run_shards(pid, tier, seed, workers, max_examples, time_s, grid_mode):
    """One OS process per shard.  A shard that dies (segfault / abort inside the code under test) is
    reported with the case it was evaluating; a shard that exceeds its budget by far is killed."""
    import multiprocessing as mp
    import pickle
    import tempfile

    jobs = [
        (pid, tier, seed * 1000 + w, w, workers, max_examples, time_s, grid_mode)
        for w in range(workers)
    ]
    ctx = mp.get_context("spawn")
    tmpdir = tempfile.mkdtemp(prefix="vt_shards_")
    os.environ["VT_INFLIGHT_DIR"] = tmpdir
    procs = []
    for w, job in enumerate(jobs):
        outfile = os.path.join(tmpdir, f"shard{w}.pkl")
        p = ctx.Process(target=_shard_entry, args=(job, outfile))
        p.start()
        procs.append((p, outfile, w))
    results = []
    t_kill = time.time() + time_s * 2 + 600
    for p, outfile, w in procs:
        p.join(max(1.0, t_kill - time.time()))
        if p.is_alive():
            p.kill()
            p.join()
            raise HarnessError(f"shard {w} of {pid} did not finish within twice its time budget (killed); inconclusive")
        if os.path.exists(outfile):
            with open(outfile, "rb") as f:
                kind, payload = pickle.load(f)
            if kind == "harness":
                raise HarnessError(payload)
            results.append(payload)
            continue
        # the process died without a result: the code under test crashed the interpreter
        inflight = os.path.join(tmpdir, f"inflight_{jobs[w][2]}.json")
        spec = None
        if os.path.exists(inflight):
            with open(inflight) as f:
                spec = json.load(f)
        results.append(dict(records=[dict(
            h=spec_hash(spec), spec=spec, viol=[(f"{pid}.process_crash", f"worker process died with exit code {p.exitcode} while evaluating this case")],
            labels=["process crash"], nt=False, stats={}, seed=jobs[w][2], grid=bool(grid_mode))], skipped=0))
    import shutil

    shutil.rmtree(tmpdir, ignore_errors=True)
    return results


# --------------------------------------------------------------------------- main entry


def run_property(pid: str, tier: str) -> int:
    t0 = time.time()
    seed = int(os.environ.get("VERIF_SEED", "1") or "1")
    mod = importlib.import_module(f"vt.props.{pid.lower()}")
    b = mod.budget(tier)
    workers = int(os.environ.get("VT_WORKERS", b.get("workers", 1)))
    time_s = float(os.environ.get("VT_TIME_S", b.get("time_s", 120)))
    scale = float(os.environ.get("VT_SCALE", "1"))
    max_examples = max(1, int(b.get("max_examples", 100) * scale / workers)) if workers else 1
    known = load_known(pid)

    results = []
    exhaustive = False
    if hasattr(mod, "grid") or corpus_specs(pid):
        results += _run_shards(pid, tier, seed, workers, 0, time_s, True)
        exhaustive = hasattr(mod, "grid") and all(r["skipped"] == 0 for r in results)
    if hasattr(mod, "strategy") and b.get("max_examples", 100) > 0:
        results += _run_shards(pid, tier, seed, workers, max_examples, time_s, False)

    records: Dict[str, dict] = {}
    skipped = 0
    evaluations = 0
    for r in results:
        skipped += r["skipped"]
        for rec in r["records"]:
            evaluations += 1
            records.setdefault(rec["h"], rec)

    # ---- bucket
    clause_counts: Dict[str, int] = {}
    unmatched: Dict[str, List[dict]] = {}
    labels: Dict[str, int] = {}
    stats: Dict[str, float] = {}
    nontrivial = 0
    samples = []
    for rec in records.values():
        if rec["nt"]:
            nontrivial += 1
            if len(samples) < 4 and rec["spec"] is not None:
                samples.append(rec["spec"])
        for lab in rec["labels"]:
            labels[lab] = labels.get(lab, 0) + 1
        for k, v in rec["stats"].items():
            if k not in stats or v > stats[k]:
                stats[k] = v
        for clause, detail in rec["viol"]:
            clause_counts[clause] = clause_counts.get(clause, 0) + 1
            k = match_known(known, clause, rec["spec"])
            if k is not None:
                k.hits += 1
            else:
                unmatched.setdefault(clause, []).append(dict(rec, detail=detail))
    if not samples:
        samples = [r["spec"] for r in list(records.values())[:3] if r["spec"] is not None]

    for k in known:
        # a listed finding is reported on every run, whether or not this run's sample hit it
        print(f"KNOWN-FINDING: property={pid} {k.text} [{k.clause}; hit {k.hits}x in this run]")

    # ---- shrink + report
    exit_code = 0
    os.makedirs(os.path.join(OUT_DIR, "replays"), exist_ok=True)
    n_viol = 0
    for clause, recs in sorted(unmatched.items()):
        n_viol += len(recs)
        recs.sort(key=lambda r: len(json.dumps(r["spec"], default=str)))
        best = recs[0]
        spec = best["spec"]
        if tier == "thorough" and not best["grid"] and hasattr(mod, "strategy"):
            try:
                spec = _shrink(mod, tier, best, clause, known, max_examples) or spec
            except Exception:  # noqa: BLE001  (shrinking is best effort: Flaky / time budget / harness trouble -> keep the unshrunk case)
                pass
        path = os.path.join(
            "replays", f"{pid}_{clause.replace('.', '_').replace('/', '_')}_{spec_hash(spec)[:8]}.json"
        )
        with open(os.path.join(OUT_DIR, path), "w") as f:
            json.dump(
                dict(property_id=pid, clause=clause, detail=best["detail"], spec=spec, seed=seed, tier=tier),
                f, indent=1, default=str,
            )
        print(f"  clause {clause}: {len(recs)} violating case(s); e.g. {best['detail'][:300]}")
        print(f"VIOLATION property={pid} replay={path}")
        exit_code = 1

    # a library that refuses most valid generated inputs does not "hold" the property on them
    discarded = [r for r in records.values() if any(l.startswith("discarded: ") and "library" in l.lower() or l.startswith("discarded: malformed") or l.startswith("discarded: SuperLU") for l in r["labels"])]
    if records and len(discarded) > b.get("max_discard_share", 0.6) * len(records):
        withspec = [r for r in discarded if r["spec"] is not None] or discarded
        path = os.path.join("replays", f"{pid}_excessive_refusals_{withspec[0]['h'][:8]}.json")
        with open(os.path.join(OUT_DIR, path), "w") as f:
            json.dump(dict(property_id=pid, clause=f"{pid}.excessive_refusals", detail=str(withspec[0]["labels"]), spec=withspec[0]["spec"], seed=seed, tier=tier), f, indent=1, default=str)
        print(f"  clause {pid}.excessive_refusals: the library refused {len(discarded)} of {len(records)} valid generated inputs ({withspec[0]['labels']})")
        print(f"VIOLATION property={pid} replay={path}")
        exit_code = 1
        n_viol += len(discarded)
    if nontrivial < b.get("min_nontrivial", 2) and exit_code == 0:
        print(f"HARNESS: only {nontrivial} non-trivial cases (< {b.get('min_nontrivial', 2)}); inconclusive")
        exit_code = 2
    min_cases = b.get("min_cases", 2)
    if evaluations < min_cases and exit_code == 0:
        print(f"HARNESS: only {evaluations} cases evaluated (< {min_cases}); inconclusive")
        exit_code = 2

    wall = time.time() - t0
    evidence = dict(
        property_id=pid,
        tier=tier,
        seed=seed,
        level=mod.LEVEL,
        coverage=dict(
            evaluations=evaluations,
            distinct_cases=len(records),
            distinct_nontrivial=nontrivial,
            rule=mod.RULE,
            samples=samples[:4],
            exhaustive=False,
            classes=dict(sorted(labels.items())),
            worst_residuals=stats,
            violations_by_clause=clause_counts,
            known_findings_hit={k.clause: k.hits for k in known},
            skipped_for_time_budget=skipped,
            workers=workers,
        ),
        assumptions=list(getattr(mod, "ASSUMPTIONS", [])),
        wall_s=round(wall, 2),
        violations=n_viol,
    )
    if hasattr(mod, "grid"):
        evidence["coverage"]["grid_exhaustive"] = bool(exhaustive)
    evidence["coverage"]["exhaustive"] = bool(exhaustive and hasattr(mod, "grid"))
    os.makedirs(os.path.join(OUT_DIR, "evidence"), exist_ok=True)
    with open(os.path.join(OUT_DIR, "evidence", f"{pid}.json"), "w") as f:
        json.dump(evidence, f, indent=1, default=str)
    print(
        f"{pid} {tier} seed={seed}: {evaluations} cases, {nontrivial} distinct non-trivial, "
        f"{n_viol} unlisted violation(s), skipped {skipped}, {wall:.1f}s"
    )
    if stats:
        print("  worst residuals: " + ", ".join(f"{k}={v:.3g}" for k, v in sorted(stats.items())))
    return exit_code


def _shrink(mod, tier, rec, clause, known, max_examples):
    """Re-run the shard that found ``rec`` with a failing body so Hypothesis shrinks."""
    cache: Dict[str, Result] = {}

    def on_case(spec):
        h = spec_hash(spec)
        if h not in cache:
            cache[h] = evaluate(mod, spec)
        return cache[h]

    def pred(spec, res):
        return any(
            c == clause and match_known(known, c, spec) is None for c, _ in res.violations
        )

    st = _drive(
        mod, tier, rec["seed"], max_examples, time.time() + 240, on_case, fail_pred=pred, shrink=True
    )
    return st["last_fail"]


def replay(path: str) -> int:
    with open(path) as f:
        data = json.load(f)
    pid = data["property_id"]
    mod = importlib.import_module(f"vt.props.{pid.lower()}")
    _quiet_stderr()
    res = evaluate(mod, data["spec"])
    known = load_known(pid)
    code = 0
    for clause, detail in res.violations:
        k = match_known(known, clause, data["spec"])
        if k is not None:
            print(f"KNOWN-FINDING: property={pid} {k.text} [{clause}]")
            continue
        print(f"  {clause}: {detail}")
        code = 1
    if code:
        print(f"VIOLATION property={pid} replay={path}")
    else:
        print(f"{pid}: replay of {path} shows no unlisted violation")
    return code


def main(argv=None) -> int:
    argv = list(sys.argv[1:] if argv is None else argv)
    try:
        if argv and argv[0] == "--replay":
            return replay(argv[1])
        pid, tier = argv[0], (argv[1] if len(argv) > 1 else os.environ.get("VERIF_TIER", "quick"))
        return run_property(pid.upper(), tier)
    except HarnessError as exc:
        print(f"HARNESS ERROR: {exc}")
        return 2
    except Exception:  # noqa: BLE001
        print("HARNESS ERROR: " + traceback.format_exc())
        return 2


if __name__ == "__main__":
    sys.exit(main())
