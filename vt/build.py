"""Case spec (plain JSON) -> tdgl objects.  Everything random lives in the spec."""
from __future__ import annotations

import copy
import json
from collections import OrderedDict
from fractions import Fraction

import numpy as np

from . import oracles as orc
from .engine import spec_hash

# ----------------------------------------------------------------------------- polygons


def shape_points(shape):
    """Vertex array for a primitive shape spec (documented tdgl.geometry primitives)."""
    from tdgl import geometry

    k = shape["kind"]
    c = tuple(shape.get("center", (0.0, 0.0)))
    if k == "box":
        pts = geometry.box(shape["w"], shape["h"], points=shape.get("points", 40), center=c,
                           angle=shape.get("angle", 0))
    elif k == "ellipse":
        pts = geometry.ellipse(shape["a"], shape["b"], points=shape.get("points", 40), center=c,
                               angle=shape.get("angle", 0))
    elif k == "circle":
        pts = geometry.circle(shape["r"], points=shape.get("points", 40), center=c)
    elif k == "points":
        pts = np.array(shape["xy"], dtype=float)
    else:
        raise ValueError(k)
    if shape.get("reverse"):
        pts = pts[::-1]
    return pts


def _drop_near_duplicates(pts, rel=1e-9):
    pts = np.asarray(pts, dtype=float)
    scale = float(np.ptp(pts, axis=0).max())
    keep = [0]
    for i in range(1, len(pts)):
        if np.linalg.norm(pts[i] - pts[keep[-1]]) > rel * scale:
            keep.append(i)
    out = pts[keep]
    if np.linalg.norm(out[0] - out[-1]) <= rel * scale:
        out = out[:-1]
    return out


def make_polygon(shape, name=None, mesh=True):
    """tdgl.Polygon for a shape spec: primitive | union/difference/intersection of parts,
    then optional rotate-about-centre / translate / resample."""
    from tdgl import Polygon

    if shape["kind"] in ("union", "intersection", "difference"):
        parts = [make_polygon(p, name=name) for p in shape["parts"]]
        poly = getattr(parts[0], shape["kind"])(*parts[1:], name=name)
        if not shape.get("raw"):
            # Set operations on box() outlines leave vertices ~1e-16 apart (each box corner is
            # emitted twice and shapely moves one copy by an ulp).  Triangle cannot digest
            # near-duplicate vertices (internal error / unbounded memory), and the library only
            # removes *exact* duplicates, so the harness does what the documentation's examples
            # do before meshing: clean the outline.
            poly = Polygon(name, points=_drop_near_duplicates(poly.points), mesh=mesh)
    else:
        poly = Polygon(name, points=shape_points(shape), mesh=mesh)
    if shape.get("rot"):
        org = shape.get("rot_origin", "center")
        poly = poly.rotate(shape["rot"], origin=org if isinstance(org, str) else tuple(org))
    if shape.get("shift"):
        poly = poly.translate(*shape["shift"])
    if shape.get("post_rot"):
        poly = poly.rotate(shape["post_rot"], origin=tuple(shape["post_origin"]))
    if shape.get("resample"):
        poly = poly.resample(int(shape["resample"]))
    poly.name = name
    poly.mesh = mesh
    return poly


# ----------------------------------------------------------------------------- devices

_DEV_CACHE: "OrderedDict[str, object]" = OrderedDict()


def make_device(dspec, cache=True, with_mesh=True):
    """tdgl.Device (meshed) for a device spec."""
    import tdgl

    key = spec_hash(dspec) + str(with_mesh)
    if cache and key in _DEV_CACHE:
        _DEV_CACHE.move_to_end(key)
        return _DEV_CACHE[key]
    lay = dspec["layer"]
    layer = tdgl.Layer(
        london_lambda=lay["lam"], coherence_length=lay["xi"], thickness=lay["d"],
        gamma=lay["gamma"], u=lay["u"], z0=lay.get("z0", 0.0), conductivity=lay.get("conductivity"),
    )
    film = make_polygon(dspec["film"], name="film")
    holes = [make_polygon(h, name=f"hole{i}") for i, h in enumerate(dspec.get("holes", []))]
    terms = [make_polygon(t["shape"], name=t["name"]) for t in dspec.get("terminals", [])]
    probes = dspec.get("probes")
    origin = dspec.get("origin")
    if origin:
        # the whole layout sits far from the coordinate origin (a device cut out of a large layout); the shift is done by the
        # harness on the vertex arrays, not by the library's translate()
        o = np.array(origin, dtype=float)

        def _moved(poly):
            return tdgl.Polygon(poly.name, points=poly.points + o, mesh=poly.mesh)

        film, holes, terms = _moved(film), [_moved(h) for h in holes], [_moved(t) for t in terms]
        if probes:
            probes = (np.array(probes, dtype=float) + o).tolist()
    dev = tdgl.Device(
        dspec.get("name", "dev"), layer=layer, film=film, holes=holes, terminals=terms,
        probe_points=(np.array(probes, dtype=float) if probes else None),
        length_units=dspec.get("lu", "um"),
    )
    if with_mesh:
        m = dspec["mesh"]
        dev.make_mesh(max_edge_length=m.get("max_edge_length"), min_points=m.get("min_points"),
                      smooth=int(m.get("smooth", 0)))
    if cache:
        _DEV_CACHE[key] = dev
        while len(_DEV_CACHE) > 6:
            _DEV_CACHE.popitem(last=False)
    return dev


def stable_dt(device):
    """u / (sqrt(1+gamma^2) * (rho_Gershgorin + 2)): scale of the explicit-scheme stability limit.
    rho bounds the spectrum of the Laplacian; the +2 is the linearised reaction term (epsilon - 3|psi|^2 = -2 at
    psi = 1), which dominates on meshes whose cells are much larger than the coherence length."""
    rho = orc.gershgorin_rho(device.mesh)
    lay = device.layer
    return lay.u / (np.sqrt(1 + lay.gamma**2) * (rho + 2.0))


# ----------------------------------------------------------------------------- drives


def make_vector_potential(aspec, device, field_units, t_total=None):
    """Applied vector potential from a drive spec:
    {"kind": "zero" | "float" | "constant" | "gauge_param" | "ramp" | "scale_fn", "B": float, ...}"""
    import tdgl
    from tdgl.sources import ConstantField, LinearRamp

    k = aspec["kind"]
    lu = device.length_units
    if "tmax" in aspec:
        # ramps last a generated fraction of the run when the run's length is known (so that many of them end within it),
        # an absolute time otherwise
        aspec = dict(aspec, tmax=float(aspec["tmax_frac"]) * float(t_total) if (t_total and aspec.get("tmax_frac")) else aspec["tmax"])
    if k == "zero":
        return 0.0
    if k == "float":
        return float(aspec["B"])
    if k == "constant":
        return ConstantField(aspec["B"], field_units=field_units, length_units=lu)
    if k == "gauge_param":
        return tdgl.Parameter(_uniform_A, B=float(aspec["B"]), ax=float(aspec.get("ax", 0.0)),
                              ay=float(aspec.get("ay", 0.0)), x0=float(aspec.get("x0", 0.0)),
                              y0=float(aspec.get("y0", 0.0)))
    if k == "ramp":
        return ConstantField(aspec["B"], field_units=field_units, length_units=lu) * LinearRamp(
            tmin=aspec.get("tmin", 0.0), tmax=aspec["tmax"], initial=aspec.get("initial", 0.0),
            final=aspec.get("final", 1.0))
    if k == "ramp_gauge":
        # ramped uniform field plus a *time-independent* constant shift (a pure gauge)
        ramped = tdgl.Parameter(_uniform_A, B=float(aspec["B"]), x0=float(aspec.get("x0", 0.0)),
                                y0=float(aspec.get("y0", 0.0))) * LinearRamp(
            tmin=aspec.get("tmin", 0.0), tmax=aspec["tmax"], initial=aspec.get("initial", 0.0),
            final=aspec.get("final", 1.0))
        if aspec.get("ax") or aspec.get("ay"):
            return ramped + tdgl.Parameter(_uniform_A, B=0.0, ax=float(aspec.get("ax", 0.0)), ay=float(aspec.get("ay", 0.0)))
        return ramped
    raise ValueError(k)


def _uniform_A(x, y, z, *, B=0.0, ax=0.0, ay=0.0, x0=0.0, y0=0.0):
    """Symmetric-gauge potential of a uniform field B about (x0, y0) plus a constant (ax, ay),
    in units of field_units * length_units."""
    Ax = -B * (y - y0) / 2 + ax
    Ay = B * (x - x0) / 2 + ay
    return np.stack([Ax, Ay, np.zeros_like(Ax)], axis=1)


def exact_currents(cspec):
    """Exact rational terminal currents {name: Fraction} from {"quantum": "0.1", "mult": {name: int}}."""
    q = Fraction(cspec["quantum"])
    return {n: q * int(m) for n, m in cspec["mult"].items()}


def _profile(prof, t0):
    def factor(t):
        if prof == "const":
            return 1.0
        if prof == "step":
            return 1.0 if t >= t0 else 0.0
        if prof == "ramp":
            return min(1.0, max(0.0, t / t0))
        if prof == "sine":
            return float(np.sin(t / t0))
        if prof == "pulse":  # full current first, then a smaller one of opposite sign, then off
            return 1.0 if t < t0 else (-0.5 if t < 2 * t0 else 0.0)
        if prof == "stairs":  # piecewise constant, changes every t0/2
            return float(int(2 * t / t0) % 4) / 4.0
        return 1.0

    return factor


def _t0(c, t_total):
    if "t0_frac" in c and t_total:
        return float(c["t0_frac"]) * float(t_total)
    return float(c.get("t0", 1.0))


def currents_at(cspec, t, t_total=None):
    """The terminal currents (floats, user units) a spec stands for at time t:
       base currents (integer multiples of a decimal quantum, exact sum 0) times a common profile, plus an optional
       'shift' that moves current from one terminal to another with its own profile (the other terminals keep theirs)."""
    if cspec is None:
        return {}
    # "generic": arbitrary floats (the last one minus the float sum of the others) instead of multiples of a quantum
    ex = cspec["generic"] if cspec.get("generic") else exact_currents(cspec)
    if cspec["kind"] == "dict":
        return {n: (np.float64(v) if cspec.get("numpy") else float(v)) for n, v in ex.items()}
    f = _profile(cspec.get("profile", "ramp"), _t0(cspec, t_total))(t)
    out = {n: float(v) * f for n, v in ex.items()}
    sh = cspec.get("shift")
    if sh:
        g = _profile(sh.get("profile", "stairs"), _t0(sh, t_total))(t)
        amount = float(Fraction(cspec["quantum"]) * int(sh["mult"])) * g
        out[sh["to"]] = out[sh["to"]] + amount
        out[sh["from"]] = out[sh["from"]] - amount
    if cspec.get("numpy"):
        out = {n: np.float64(v) for n, v in out.items()}
    return out


def make_currents(cspec, t_total=None):
    """Terminal currents for the solver from a spec:
       None | {"kind":"dict","quantum":str,"mult":{name:int}} | {"kind":"callable", ..., "profile": ..., "t0"|"t0_frac": float, "shift": {...}}
    Floats are produced the way a user would write them: float(int * decimal quantum)."""
    if cspec is None:
        return None
    if cspec["kind"] == "dict":
        return currents_at(cspec, 0.0)

    if cspec.get("same_dict"):
        # a callable that keeps one dict and updates it in place (e.g. a source object holding its present output)
        held = {}

        def currents_in_place(t):
            new = currents_at(cspec, t, t_total)
            for key in list(held):
                if key not in new:
                    del held[key]
            held.update(new)
            return held

        return currents_in_place

    def currents(t):
        return currents_at(cspec, t, t_total)

    return currents


def current_factor(cspec, t, t_total=None):
    if cspec is None:
        return 0.0
    if cspec["kind"] == "dict":
        return 1.0
    return _profile(cspec.get("profile", "ramp"), _t0(cspec, t_total))(t)


def make_epsilon(espec):
    """disorder_epsilon from a spec: {"kind":"one"|"float"|"callable"|"timedep", ...}"""
    if espec is None or espec["kind"] == "one":
        return 1.0
    if espec["kind"] == "float":
        return float(espec["value"])
    x0, y0, rad, lo = espec["x0"], espec["y0"], espec["radius"], espec["lo"]
    if espec["kind"] == "callable":

        def epsilon(r):
            x, y = r
            return lo if (x - x0) ** 2 + (y - y0) ** 2 < rad**2 else 1.0

        return epsilon
    if espec["kind"] == "timedep":
        t1 = espec.get("t1", 1.0)

        def epsilon_t(r, *, t):
            x, y = r
            if (x - x0) ** 2 + (y - y0) ** 2 < rad**2:
                return lo + (1.0 - lo) * min(1.0, t / t1)
            return 1.0

        return epsilon_t
    raise ValueError(espec["kind"])


class LibraryRefused(Exception):
    """The library refused a valid-looking input for a documented or environmental reason that is
    outside the property under test (the case is discarded and counted)."""


def make_solver(device, options, max_steps=None, **kw):
    """TDGLSolver(...) with the one construction failure that is outside every listed property mapped
    to LibraryRefused: SuperLU occasionally reports 'Factor is exactly singular' for the pure-Neumann
    (singular by construction) Poisson matrix of some meshes."""
    import tdgl

    try:
        solver = tdgl.TDGLSolver(device, options, **kw)
    except RuntimeError as exc:
        if "exactly singular" in str(exc):
            raise LibraryRefused("SuperLU: Poisson matrix exactly singular") from exc
        raise
    # Safety net of the harness: an adaptive run whose time step collapses never reaches its end time (each step is
    # cheap, so no time budget notices).  Far beyond anything a healthy run needs, the run is ended the way the library
    # itself gives up, so that every check treats it as it treats non-convergence (C17 counts that as a violation).
    nominal = (float(options.solve_time) + float(options.skip_time or 0.0)) / float(options.dt_init)
    limit = int(max_steps) if max_steps else int(200 * max(nominal, 1.0)) + 2000
    orig, count = solver.update, [0]

    def update(*a, **k):
        count[0] += 1
        if count[0] > limit:
            raise RuntimeError(f"harness step limit: the run failed to converge to its end time within {limit} steps "
                               f"(nominal number for dt_init={options.dt_init:.3g}: {nominal:.0f})")
        return orig(*a, **k)

    solver.update = update
    return solver


def make_device_or_refuse(dspec, **kw):
    try:
        return make_device(dspec, **kw)
    except ValueError as exc:
        if "Malformed Voronoi" in str(exc):
            raise LibraryRefused("malformed Voronoi cell (documented refusal)") from exc
        raise


# ----------------------------------------------------------------------------- options


def make_options(ospec, device=None, **override):
    """tdgl.SolverOptions from an option spec.  ``dt_c`` / ``dtmax_c`` are multiples of the
    stability scale of the device's mesh; explicit ``dt_init`` / ``dt_max`` win if present."""
    import tdgl

    o = dict(ospec)
    o.update(override)
    kw = {}
    dts = stable_dt(device) if device is not None and ("dt_c" in o or "dtmax_c" in o) else None
    if "dt_init" in o:
        kw["dt_init"] = float(o["dt_init"])
    elif "dt_c" in o:
        kw["dt_init"] = float(o["dt_c"]) * dts
    if "dt_max" in o:
        kw["dt_max"] = float(o["dt_max"])
    elif "dtmax_c" in o:
        kw["dt_max"] = max(float(o["dtmax_c"]) * dts, kw.get("dt_init", 0.0))
    if "dt_max" not in kw and kw.get("dt_init", 0.0) > 0.1:
        kw["dt_max"] = kw["dt_init"]  # the library's default dt_max is 0.1; a coarse mesh allows a larger fixed step
    if "nsteps" in o:
        # fixed-step runs: solve_time chosen so that exactly nsteps updates are needed
        n = int(o["nsteps"])
        kw["solve_time"] = 0.0 if n == 0 else (n - 0.5) * kw["dt_init"]
    else:
        kw["solve_time"] = float(o["solve_time"])
    if "skip_steps" in o:
        n = int(o["skip_steps"])
        kw["skip_time"] = 0.0 if n == 0 else (n - 0.5) * kw["dt_init"]
    elif "skip_time" in o:
        kw["skip_time"] = float(o["skip_time"])
    for k in ("adaptive", "adaptive_window", "max_solve_retries", "adaptive_time_step_multiplier",
              "save_every", "progress_interval", "field_units", "current_units", "include_screening",
              "max_iterations_per_step", "screening_tolerance", "screening_step_size",
              "screening_step_drag", "output_file", "pause_on_interrupt", "sparse_solver", "gpu"):
        if k in o:
            kw[k] = o[k]
    if "terminal_psi" in o:
        tp = o["terminal_psi"]
        if isinstance(tp, (list, tuple)):
            tp = complex(tp[0], tp[1])
        kw["terminal_psi"] = tp
    kw.setdefault("pause_on_interrupt", False)
    kw.setdefault("progress_interval", 0)
    return tdgl.SolverOptions(**kw)
