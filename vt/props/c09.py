"""C09 - simulations are deterministic and reproducible bit for bit."""
import json
import os
import subprocess
import sys
import tempfile

from hypothesis import strategies as st

from .. import gen
from ..engine import REPO_DIR, VERIF_DIR, Result

PID = "C09"
TITLE = "Simulations are deterministic and reproducible bit for bit"
LEVEL = "exploration"
TECHNIQUE = "metamorphic relation across fresh processes: each generated case is meshed, solved and post-processed in 3 subprocesses that differ in NUMBA_NUM_THREADS (1..16), PYTHONHASHSEED, working directory and output file name; SHA-256 digests of the mesh, of every dataset and attribute of every frame (timestamps excluded) and of post-processed fields must be equal"
RULE = (
    "case = generated device (meshed inside each subprocess) x drive (static / ramped field, dict / callable currents, constant / callable / "
    "time-dependent epsilon) x screening on/off x adaptive on/off; 3 runs per case with thread counts drawn from 1..16; non-trivial = screening on "
    "(parallel kernel exercised) or callable currents (the validator's random sampling is exercised); distinct by spec hash"
)
ASSUMPTIONS = [
    "the harness controls the number of threads, not their interleaving: a race that needs a particular schedule could stay hidden; the kernels' structure (sequential inner reduction per prange index) makes the thread count the relevant variable",
    "timestamp attributes are excluded from the digests, everything else in the file is included",
]
LEVEL_TEXT = "Each case compares complete runs across process boundaries and thread counts; limited by process start-up and JIT cost (~8 s per run), so tens of cases per quick run and hundreds in the thorough tier."
LEVEL_NOTE = "Trusted: SHA-256 over raw array bytes; subprocess isolation.  Schedules are not enumerated (see assumptions)."


def budget(tier):
    if tier == "quick":
        return dict(max_examples=28, workers=7, time_s=170, min_cases=10)
    return dict(max_examples=400, workers=5, time_s=1200, min_cases=24)


@st.composite
def _case(draw, tier):
    scr = draw(st.integers(0, 2)) > 0
    dev = draw(gen.device(terminals=draw(st.sampled_from([(0, 3), (3, 4), (4, 4), (4, 4)])), holes=(0, 1), probes=(0, 2), film_kinds=("box", "ellipse", "union"), size=(3.5, 5.0),
                          screening=scr, lshape=True).filter(gen.valid_device))
    fu = draw(st.sampled_from(gen.FIELD_UNITS))
    cu = draw(st.sampled_from(gen.CURRENT_UNITS))
    fld = draw(gen.field(dev, fu, kinds=("constant", "ramp", "float"), bmax=0.25 if scr else 0.5))
    cur = draw(gen.currents(dev, cu, kinds=("callable", "callable", "dict"), generic="always"))
    eps = draw(st.sampled_from([None, None, "disc", "timedep"]))
    if isinstance(eps, str):
        xi = dev["layer"]["xi"]
        c = dev["film"].get("center") or dev["film"]["parts"][0]["center"]
        eps = dict(kind="callable" if eps == "disc" else "timedep", x0=c[0], y0=c[1], radius=1.5 * xi, lo=0.2, t1=0.5)
    threads = [draw(st.sampled_from([1, 1, 2])), draw(st.sampled_from([3, 4, 7, 8])), draw(st.sampled_from([16, 16, 11, 5]))]
    return dict(device=dev, field=fld, currents=cur, epsilon=eps, threads=threads, hashseeds=["0", "12345", "random"],
                options=dict(dt_c=draw(gen.rf(0.05, 0.4)), dtmax_c=0.45, adaptive=draw(st.booleans()), adaptive_window=3,
                             include_screening=scr, screening_tolerance=1e-3, field_units=fu, current_units=cu,
                             nsteps=draw(st.integers(3, 10 if tier == "quick" else 25)), save_every=draw(st.integers(1, 4)),
                             terminal_psi=draw(st.sampled_from([0.0, None]))))


def strategy(tier):
    return _case(tier)


def check_case(spec):
    res = Result()
    scr = bool(spec["options"]["include_screening"])
    callable_cur = spec["currents"] is not None and spec["currents"]["kind"] == "callable"
    res.label("screening" if scr else "no screening", "callable currents" if callable_cur else "no callable currents",
              "adaptive" if spec["options"]["adaptive"] else "fixed dt")
    res.nontrivial = scr or callable_cur
    outs = []
    with tempfile.TemporaryDirectory(prefix="vt_c09_") as base:
        sp = os.path.join(base, "spec.json")
        json.dump(spec, open(sp, "w"))
        procs = []
        for i, (nt, hs) in enumerate(zip(spec["threads"], spec["hashseeds"])):
            wd = os.path.join(base, f"run{i}", "x" * i)
            os.makedirs(wd)
            tmpd = os.path.join(base, f"tmp{i}")
            os.makedirs(tmpd)
            env = dict(os.environ, NUMBA_NUM_THREADS=str(nt), PYTHONHASHSEED=hs, TMPDIR=tmpd,
                       PYTHONPATH=os.pathsep.join([REPO_DIR, VERIF_DIR]), OMP_NUM_THREADS=str(nt))
            out_name = ["out.h5", "another name.h5", os.path.join("deep", "er", "o.h5")][i % 3]
            procs.append(subprocess.Popen([sys.executable, "-m", "vt.c09_child", sp, out_name] + (["repeat"] if i == 1 else []), cwd=wd, env=env,
                                          stdout=subprocess.PIPE, stderr=subprocess.PIPE, text=True))
        results = []
        try:
            for p in procs:
                results.append(p.communicate(timeout=900))
        finally:
            for p in procs:
                if p.poll() is None:
                    p.kill()
        for p, (so, se) in zip(procs, results):
            line = [l for l in so.splitlines() if l.startswith("{")]
            if p.returncode != 0 or not line:
                if "Malformed Voronoi" in se or "exactly singular" in se or "does not contain any points" in se:
                    res.label("discarded: library refused the case (documented refusal)")
                    return res
                raise RuntimeError(f"child failed ({p.returncode}): {se[-800:]}")
            outs.append(json.loads(line[-1]))
    res.label(f"threads={sorted(set(spec['threads']))}")
    ref = outs[0]
    for i, o in enumerate(outs[1:], 1):
        if o["mesh"] != ref["mesh"]:
            res.fail("C09.mesh", f"mesh differs between a run with {spec['threads'][0]} and one with {spec['threads'][i]} threads (PYTHONHASHSEED {spec['hashseeds'][0]} vs {spec['hashseeds'][i]})")
        if o["status"] != ref["status"]:
            res.fail("C09.status", f"one run was refused ({o.get('message') or ref.get('message')}) and the other was not")
            continue
        if o["status"] != "ok":
            res.label("run refused (documented non-convergence) in all processes")
            continue
        if o["file"] != ref["file"]:
            bad = [j for j, (a, b) in enumerate(zip(o["frames"], ref["frames"])) if a != b]
            res.fail("C09.frames", f"recorded data differ between {spec['threads'][0]} and {spec['threads'][i]} threads: first differing frame {bad[:1]}, "
                     f"{o['nframes']} vs {ref['nframes']} frames, {o['nsteps']} vs {ref['nsteps']} steps")
        if o.get("again") and o["again"] != ref["file"]:
            res.fail("C09.repeat_in_process", "the same simulation repeated in the same process (same device and parameter objects, another output file) gives different recorded data")
        if o["post"] != ref["post"]:
            res.fail("C09.postprocessing", f"fields computed from the solution differ between {spec['threads'][0]} and {spec['threads'][i]} threads")
    return res
