"""C07 - mesh geometry is the Delaunay/Voronoi dual of the device domain."""
import numpy as np
from hypothesis import strategies as st

from .. import build, gen
from .. import oracles as orc
from ..engine import Result

PID = "C07"
TITLE = "Mesh geometry is the Delaunay/Voronoi dual of the device domain"
LEVEL = "exploration"
TECHNIQUE = "generated device geometries meshed through the public path; validity predicates (tiling, boundary, Euler characteristic) and a brute-force Voronoi oracle (half-plane clipping with shapely) for cell areas and dual edge lengths"
RULE = (
    "case = generated film (box / ellipse / union of boxes, optionally reversed or resampled, rotated, off-centre) x 0..2 holes (ellipse, box, "
    "L-shaped) x 0..4 terminals x max_edge_length x min_points x smoothing 0..30 x coherence length x optional history (device copied, the copy translated in place; the original or the moved copy is examined); every site, edge and triangle checked; "
    "non-trivial = >= 50 sites of which >= 60 % satisfy the local-Delaunay/unencroached predicate (so that their cells are asserted); distinct by spec hash"
    "; one layout in four sits 2e4..6e4 coherence lengths from the coordinate origin; optional history Mesh.smooth() copy requested"
)
ASSUMPTIONS = [
    "a site's cell is asserted only if every edge of every triangle incident to it is locally Delaunay (opposite angles sum <= pi+1e-7) or, on the boundary, unencroached (opposite angle <= pi/2+1e-7), and the circumcircle of every incident triangle contains no other site, as the property states ('wherever the triangulation is locally Delaunay')",
    "shapely is used as a polygon clipping calculator on inputs built by the harness; domain membership uses the harness's winding-number test",
    "a mesh refused by the library with the documented 'Malformed Voronoi cell' error is discarded (counted)",
]
LEVEL_TEXT = "Every site, edge and triangle of each generated mesh is an instance of the geometric predicates; Hypothesis varies the shapes and meshing settings."
LEVEL_NOTE = "Trusted: shapely half-plane clipping, shoelace areas, winding numbers.  Tolerances 1e-9 (tiling), 1e-8 relative (cells, observed 1e-14)."


def budget(tier):
    if tier == "quick":
        return dict(max_examples=260, workers=8, time_s=170, min_cases=80)
    return dict(max_examples=5000, workers=16, time_s=1200, min_cases=160)


@st.composite
def _case(draw, tier):
    big = tier != "quick"
    d = draw(gen.device(terminals=(0, 4), holes=(0, 2), probes=(0,), film_kinds=("box", "ellipse", "union"),
                        size=(3.5, 7.0 if not big else 11.0), min_mel=0.6 if not big else 0.45, max_mel=1.6, smooth=False).filter(gen.valid_device))
    d["mesh"]["smooth"] = draw(st.sampled_from([0, 0, 0, 1, 2, 5, 12, 30]))
    d["mesh"]["min_points"] = draw(st.sampled_from([None, None, 100, 250]))
    # the device whose mesh is examined may have a history: it was copied and the copy was moved in place (which, by the
    # documentation, moves polygons and mesh together); either the original or the moved copy is then examined
    hist = None
    if draw(st.integers(0, 3)) == 0:
        hist = dict(dx=draw(gen.rf(-6.0, 6.0)), dy=draw(gen.rf(-6.0, 6.0)), examine=draw(st.sampled_from(["original", "moved copy"])))
    # the layout may sit far from the coordinate origin (tens of thousands of coherence lengths, e.g. xi = 10 nm and layout
    # coordinates of a fraction of a millimetre): the geometry is the same wherever the device is
    if draw(st.integers(0, 3)) == 0:
        k, ang = draw(st.sampled_from([2.0e4, 2.6e4, 3.3e4])), draw(gen.rf(0.0, 6.28))
        d["origin"] = [k * d["layer"]["xi"] * float(np.cos(ang)), k * d["layer"]["xi"] * float(np.sin(ang))]
    # ... or a relaxed (smoothed) copy of its mesh was requested through the documented Mesh.smooth(), which returns a new mesh
    if hist is None and draw(st.integers(0, 4)) == 0:
        hist = dict(smooth_copy=draw(st.sampled_from([1, 3, 10])))
    return dict(device=d, history=hist)


def strategy(tier):
    return _case(tier)


def _angle_at(p, a, b):
    """angle at vertex p of triangle (p, a, b)"""
    u, v = a - p, b - p
    c = np.einsum("ij,ij->i", u, v) / (np.linalg.norm(u, axis=1) * np.linalg.norm(v, axis=1))
    return np.arccos(np.clip(c, -1, 1))


def check_case(spec):
    from shapely.geometry import LineString, Polygon as SPoly, box as sbox

    res = Result()
    dspec = spec["device"]
    dev = build.make_device_or_refuse(dspec)
    shift = np.zeros(2)
    hist = spec.get("history")
    if hist and hist.get("smooth_copy"):
        try:
            dev.mesh.smooth(int(hist["smooth_copy"]))
        except ValueError as exc:
            if "Malformed Voronoi" not in str(exc):
                raise
            res.label("smoothed copy refused (malformed Voronoi cell)")
        res.label("history: smoothed copy of the mesh requested, original examined")
        hist = None
    if hist:
        moved = dev.copy()
        moved.translate(dx=hist["dx"], dy=hist["dy"], inplace=True)
        if hist["examine"] == "moved copy":
            dev, shift = moved, np.array([hist["dx"], hist["dy"]])
    mesh = dev.mesh
    em = mesh.edge_mesh
    xi = dspec["layer"]["xi"]
    P = mesh.sites * xi  # length units
    if dspec.get("origin"):
        # examined relative to the layout's own origin, where the outlines were generated (differences of nearby large numbers
        # are exact to ~1e-11 here; the oracles below then work with coordinates of order one)
        P = P - np.array(dspec["origin"], dtype=float)
        res.label("layout far from the coordinate origin")
    # cells / faces against the clipped Voronoi oracle: 1e-8 relative; 1e-7 for far layouts, whose site coordinates carry an
    # absolute rounding of ~1e-11 (observed 4e-10; any wrong rule is off by 1e-2 or more)
    dual_tol = 1e-7 if dspec.get("origin") else 1e-8
    T = mesh.elements
    E = em.edges
    n, ne, nt = len(P), len(E), len(T)
    film = build.make_polygon(dspec["film"], "film").points + shift
    holes = [build.make_polygon(h, f"h{i}").points + shift for i, h in enumerate(dspec["holes"])]
    if hist:
        res.label(f"history: copied, copy moved in place, {hist['examine']} examined")
    res.label(f"film={dspec['film']['kind']}", f"holes={len(holes)}", f"smooth={'0' if not dspec['mesh']['smooth'] else '>0'}")
    if any(h["kind"] == "union" for h in dspec["holes"]):
        res.label("non-convex hole")
    if dspec["film"].get("resample"):
        res.label("resampled film")
    scale = float(np.ptp(film, axis=0).max())

    # ---- 1. tiling
    tri = P[T]
    signed = 0.5 * ((tri[:, 1, 0] - tri[:, 0, 0]) * (tri[:, 2, 1] - tri[:, 0, 1]) - (tri[:, 2, 0] - tri[:, 0, 0]) * (tri[:, 1, 1] - tri[:, 0, 1]))
    if np.any(signed <= 1e-12 * np.mean(np.abs(signed))):
        k = int(np.argmin(signed))
        res.fail("C07.triangle_orientation", f"triangle {k} has signed area {signed[k]:.3e} (not positively oriented / degenerate)")
    want_area = abs(orc.shoelace(film)) - sum(abs(orc.shoelace(h)) for h in holes)
    got_area = float(np.sum(np.abs(signed)))
    r = abs(got_area - want_area) / want_area
    res.stat("tiling_area", r)
    if r > 1e-9:
        res.fail("C07.tiling_area", f"triangles cover area {got_area:.9g}, film minus holes has area {want_area:.9g} (ratio {got_area / want_area:.6f})")
        return res
    cent = tri.mean(axis=1)
    inside = orc.winding_contains(film, cent)
    for h in holes:
        inside &= ~orc.winding_contains(h, cent)
    if not np.all(inside):
        res.fail("C07.tiling_inside", f"{int(np.sum(~inside))} triangle centroid(s) lie outside the film or inside a hole")
        return res
    # ---- 2. boundary sites and edges are exactly those on the outlines
    dist_site = orc.dist_to_polyline(film, P)
    for h in holes:
        dist_site = np.minimum(dist_site, orc.dist_to_polyline(h, P))
    on_site = dist_site < 1e-9 * scale
    if set(np.where(on_site)[0]) != set(map(int, mesh.boundary_indices)):
        a, b = set(np.where(on_site)[0]), set(map(int, mesh.boundary_indices))
        res.fail("C07.boundary_sites", f"boundary_indices differ from the sites lying on the outlines: {len(b - a)} extra, {len(a - b)} missing")
    ec = 0.5 * (P[E[:, 0]] + P[E[:, 1]])
    dist_edge = orc.dist_to_polyline(film, ec)
    for h in holes:
        dist_edge = np.minimum(dist_edge, orc.dist_to_polyline(h, ec))
    on_edge = (dist_edge < 1e-9 * scale) & on_site[E[:, 0]] & on_site[E[:, 1]]
    if set(np.where(on_edge)[0]) != set(map(int, em.boundary_edge_indices)):
        a, b = set(np.where(on_edge)[0]), set(map(int, em.boundary_edge_indices))
        res.fail("C07.boundary_edges", f"boundary_edge_indices differ from the edges lying on the outlines: {len(b - a)} extra, {len(a - b)} missing")
    # ---- 3. Euler characteristic
    if n - ne + nt != 1 - len(holes):
        res.fail("C07.euler", f"V-E+T = {n}-{ne}+{nt} = {n - ne + nt}, expected {1 - len(holes)}")
    # ---- 4. edge vectors / lengths / centres are those of the site pairs
    d = mesh.sites[E[:, 1]] - mesh.sites[E[:, 0]]
    if np.abs(d - em.directions).max() > 1e-12 * np.abs(d).max():
        res.fail("C07.edge_vectors", "edge directions are not site[j]-site[i]")
    if np.abs(np.linalg.norm(d, axis=1) - em.edge_lengths).max() > 1e-12 * np.abs(d).max():
        res.fail("C07.edge_lengths", "edge lengths are not |site[j]-site[i]|")
    if np.abs(0.5 * (mesh.sites[E[:, 0]] + mesh.sites[E[:, 1]]) - em.centers).max() > 1e-12 * np.abs(mesh.sites).max():
        res.fail("C07.edge_centers", "edge centres are not the midpoints of the site pairs")
    if res.violations:
        return res

    # ---- 5. Voronoi dual where the triangulation is locally Delaunay / unencroached
    # edge -> opposite vertices
    opp = {}
    for k, (a, b, c) in enumerate(T):
        for (u, v, w) in ((a, b, c), (b, c, a), (c, a, b)):
            opp.setdefault((min(u, v), max(u, v)), []).append(w)
    edge_ok = np.zeros(ne, dtype=bool)
    for idx, (i, j) in enumerate(E):
        ws = opp[(min(i, j), max(i, j))]
        angs = [float(_angle_at(P[w][None], P[i][None], P[j][None])[0]) for w in ws]
        if len(ws) == 2:
            edge_ok[idx] = angs[0] + angs[1] <= np.pi + 1e-7
        else:
            edge_ok[idx] = angs[0] <= np.pi / 2 + 1e-7
    edge_index = {(min(i, j), max(i, j)): idx for idx, (i, j) in enumerate(E)}
    site_ok = np.ones(n, dtype=bool)
    for (a, b, c) in T:
        ok = all(edge_ok[edge_index[(min(u, v), max(u, v))]] for u, v in ((a, b), (b, c), (c, a)))
        if not ok:
            site_ok[[a, b, c]] = False
    # ... and the circumcircle of every incident triangle contains no other site at all (global Delaunay property around
    # the site: a triangulation can be locally Delaunay on all edges next to a site while a site two triangles away still
    # lies inside one of its circumcircles - found by the thorough tier, 2 of 4800 meshes)
    from scipy.spatial import cKDTree as _KD

    _tree = _KD(P)
    A_, B_, C_ = tri[:, 0], tri[:, 1], tri[:, 2]
    d_ = 2 * (A_[:, 0] * (B_[:, 1] - C_[:, 1]) + B_[:, 0] * (C_[:, 1] - A_[:, 1]) + C_[:, 0] * (A_[:, 1] - B_[:, 1]))
    ux = ((A_**2).sum(1) * (B_[:, 1] - C_[:, 1]) + (B_**2).sum(1) * (C_[:, 1] - A_[:, 1]) + (C_**2).sum(1) * (A_[:, 1] - B_[:, 1])) / d_
    uy = ((A_**2).sum(1) * (C_[:, 0] - B_[:, 0]) + (B_**2).sum(1) * (A_[:, 0] - C_[:, 0]) + (C_**2).sum(1) * (B_[:, 0] - A_[:, 0])) / d_
    cc = np.stack([ux, uy], axis=1)
    rr = np.linalg.norm(cc - A_, axis=1)
    for k_, (c_, r_) in enumerate(zip(cc, rr)):
        inside_ = [j for j in _tree.query_ball_point(c_, r_ * (1 - 1e-7)) if j not in T[k_]]
        if inside_:
            site_ok[T[k_]] = False
    share = float(np.mean(site_ok))
    res.stat("share_not_asserted", 1 - share)
    res.nontrivial = n >= 50 and share >= 0.6
    domain = SPoly(film, holes=holes)
    minx, miny, maxx, maxy = domain.bounds
    R = 4 * max(maxx - minx, maxy - miny)
    # Sites that can contribute a face to the Voronoi region of i lie within twice the largest
    # circumradius of the triangles around i (the region itself lies within one circumradius of i,
    # up to the part cut off by the domain boundary, which is bounded by the incident boundary edges).
    from scipy.spatial import cKDTree
    from shapely.geometry import Point

    a_, b_, c_ = tri[:, 0], tri[:, 1], tri[:, 2]
    la, lb, lc = np.linalg.norm(b_ - c_, axis=1), np.linalg.norm(c_ - a_, axis=1), np.linalg.norm(a_ - b_, axis=1)
    circ = la * lb * lc / (4 * np.abs(signed))
    reach = np.zeros(n)
    for k in range(3):
        np.maximum.at(reach, T[:, k], np.maximum(circ, np.maximum(la, np.maximum(lb, lc))))
    tree = cKDTree(P)

    def halfplane(i, j):
        """points closer to i than to j, as a big polygon"""
        m = 0.5 * (P[i] + P[j])
        dvec = (P[j] - P[i]) / np.linalg.norm(P[j] - P[i])
        tvec = np.array([-dvec[1], dvec[0]])
        return SPoly([m + R * tvec, m - R * tvec, m - R * tvec - R * dvec, m + R * tvec - R * dvec])

    def cell(i):
        """Voronoi region of site i (w.r.t. all sites that can matter) clipped to the domain."""
        c = domain
        cand = [j for j in tree.query_ball_point(P[i], 2.2 * reach[i]) if j != i]
        cand.sort(key=lambda j: float(np.sum((P[j] - P[i]) ** 2)))
        for j in cand:
            geoms = list(c.geoms) if hasattr(c, "geoms") else [c]
            V = np.concatenate([np.asarray(g.exterior.coords) for g in geoms if g.geom_type == "Polygon" and not g.is_empty] or [np.zeros((0, 2))])
            if len(V) and np.all(np.sum((V - P[i]) ** 2, axis=1) <= np.sum((V - P[j]) ** 2, axis=1) + 1e-12 * scale**2):
                if all(len(g.interiors) == 0 for g in geoms if g.geom_type == "Polygon"):
                    continue  # the half-plane of j does not cut the current region
            c = c.intersection(halfplane(i, j))
        if hasattr(c, "geoms"):
            pieces = [g for g in c.geoms if g.area > 0]
            c = min(pieces, key=lambda g: g.distance(Point(P[i]))) if pieces else c
        return c

    def face_length(i, j):
        """Length of the Voronoi face between i and j clipped to the domain: the part of the bisector that is
        inside the domain and at least as close to i (equivalently j) as to every other site, next to the edge."""
        m = 0.5 * (P[i] + P[j])
        dvec = (P[j] - P[i]) / np.linalg.norm(P[j] - P[i])
        tvec = np.array([-dvec[1], dvec[0]])
        g = LineString([m - R * tvec, m + R * tvec]).intersection(domain)
        parts = [q for q in (list(g.geoms) if hasattr(g, "geoms") else [g]) if q.geom_type == "LineString" and q.length > 0]
        if not parts:
            return 0.0
        q = min(parts, key=lambda q_: q_.distance(Point(m)))
        ts = [float((np.array(c) - m) @ tvec) for c in q.coords]
        lo, hi = min(ts), max(ts)
        ks = [k for k in set(tree.query_ball_point(P[i], 2.2 * reach[i])) | set(tree.query_ball_point(P[j], 2.2 * reach[j])) if k not in (i, j)]
        if ks:
            K = P[ks]
            # |x - P_i|^2 <= |x - P_k|^2 on x = m + t tvec  <=>  a t + b <= 0
            a = -2 * (tvec @ (P[i] - K).T)
            b = -2 * (m @ (P[i] - K).T) + (P[i] @ P[i]) - np.sum(K * K, axis=1)
            for ak, bk in zip(a, b):
                if abs(ak) < 1e-300:
                    if bk > 0:
                        return 0.0
                    continue
                t0 = -bk / ak
                if ak > 0:
                    hi = min(hi, t0)
                else:
                    lo = max(lo, t0)
        return max(0.0, hi - lo)

    worst_a = 0.0
    typical_edge = float(np.median(em.edge_lengths))
    typical_area = float(np.median(mesh.areas))
    asserted = np.where(site_ok)[0]
    cells = {}
    for i in asserted:
        c = cell(i)
        cells[i] = c
        want = c.area / xi**2
        got = mesh.areas[i]
        err = abs(got - want) / max(want, 0.1 * typical_area)
        worst_a = max(worst_a, err)
        if err > dual_tol:
            where = "boundary" if on_site[i] else "interior"
            res.fail("C07.cell_area", f"{where} site {i}: cell area {got:.12g}, clipped Voronoi region has area {want:.12g} (relative error {err:.2e})")
            break
    res.stat("cell_area_error", worst_a)
    worst_s = 0.0
    if not res.violations:
        for idx, (i, j) in enumerate(E):
            if not (site_ok[i] and site_ok[j]):
                continue
            want = face_length(i, j)
            want /= xi
            got = em.dual_edge_lengths[idx]
            # relative to the edge's own length, but not below the typical (median) edge: between two almost coinciding sites the
            # circumcentres of the thin triangles are ill-conditioned (absolute rounding ~1e-11 on an edge of 1e-3, seen on a union
            # outline), while any wrong rule is off by a per-cent fraction of the local mesh scale
            err = abs(got - want) / max(em.edge_lengths[idx], typical_edge)
            worst_s = max(worst_s, err)
            if err > dual_tol:
                res.fail("C07.dual_length", f"edge {idx} ({i},{j}) {'boundary' if on_edge[idx] else 'interior'}: dual length {got:.12g}, clipped Voronoi face has length {want:.12g}")
                break
    res.stat("dual_length_error", worst_s)

    # ---- 6. terminal length = boundary length covered, to within one boundary edge at each end
    if dspec["terminals"] and not res.violations:
        bl = em.edge_lengths[em.boundary_edge_indices] * xi
        maxb = float(bl.max())
        info = {t.name: t for t in dev.terminal_info()}
        for t in dspec["terminals"]:
            tp = build.make_polygon(t["shape"], t["name"]).points + shift
            covered = orc.polygon_perimeter_inside(film, tp) + sum(orc.polygon_perimeter_inside(h, tp) for h in holes)
            got = float(info[t["name"]].length)
            if abs(got - covered) > 2 * maxb + 0.02 * covered:
                res.fail("C07.terminal_length", f"terminal {t['name']}: length {got:.6g}, outline length inside the terminal polygon {covered:.6g} (longest boundary edge {maxb:.3g})")
        res.label("terminals")
    return res
