"""C01 - charge is conserved in every cell at every recorded step; terminal currents honoured;
balanced currents accepted."""
from fractions import Fraction

import numpy as np
from hypothesis import strategies as st

from .. import build, gen, sim
from .. import oracles as orc
from ..engine import Result

PID = "C01"
TITLE = "Charge is conserved in every cell at every recorded step"
LEVEL = "exploration"
TECHNIQUE = "whole simulations from generated devices/drives; invariant oracle: per-cell divergence of the stored currents (harness's own assembly) equals the terminal flux derived from the user's currents with SI constants"
RULE = (
    "case = generated device (box/ellipse/union film, 0..2 holes incl. non-convex, 2..4 terminals) x field (zero/static/ramped) x balanced "
    "currents (dict or callable, integer multiples of a decimal quantum such as 0.1/0.2/-0.3, exact rational sum 0) x screening on/off "
    "x adaptive on/off x unit system x optional thermalisation stage (after which the clock of a time-dependent current restarts), 5..40 steps, every recorded frame checked at every site; non-trivial = some frame has a "
    "terminal carrying non-zero current and max|Js| > 1e-6; distinct by spec hash"
    "; also contact pads reaching over a hole rim and callables that update one dict in place"
)
ASSUMPTIONS = [
    "terminal membership of boundary edges is recomputed by winding number; edge centres within 1e-9 of a terminal polygon's outline make the case ambiguous and it is discarded (counted)",
    "for time-dependent currents the flux of frame s is evaluated at the time label of the update that produced it (taken from the recorded call history)",
    "K0 = 4 xi Bc2/(mu0 Lambda) and Phi_0, mu_0 from scipy.constants; unit conversion by an explicit table",
]
LEVEL_TEXT = (
    "Every site of every recorded frame of each generated simulation is an instance of the invariant, so one run checks "
    "thousands of cells; Hypothesis varies geometry, drive, options and units."
)
LEVEL_NOTE = "Trusted: harness divergence assembly from mesh arrays, SI constants, winding-number membership.  Tolerance 1e-9 relative to the flux scale (observed 1e-15)."


def budget(tier):
    if tier == "quick":
        return dict(max_examples=500, workers=8, time_s=170, min_cases=120)
    return dict(max_examples=12000, workers=16, time_s=1200, min_cases=240)


@st.composite
def _case(draw, tier):
    scr = draw(st.integers(0, 4)) == 0
    big = tier != "quick"
    dev = draw(gen.device(terminals=(2, 4), holes=(0, 2), probes=(0, 2), film_kinds=("box", "box", "ellipse", "union"),
                          size=(3.5, 6.0 if not big else 9.0), screening=scr, min_mel=0.7 if not big else 0.5).filter(gen.valid_device))
    if draw(st.integers(0, 5)) == 0:
        # a contact pad drawn generously: it reaches over (part of) a hole next to the contacted edge, so that part of the
        # hole's rim lies inside the terminal polygon
        w, h = draw(gen.rf(4.5, 7.0)), draw(gen.rf(3.0, 5.0))
        a, b = draw(gen.rf(0.45, 0.8)), draw(gen.rf(0.45, 0.8))
        m, y0 = draw(gen.rf(0.75, 1.1)), draw(gen.rf(-0.3, 0.3))
        reach = m + a * draw(gen.rf(0.5, 1.5))
        hy = draw(gen.rf(2.0 * b + 0.4, h - 0.5))
        dev = dict(lu=dev["lu"], layer=dev["layer"], probes=None,
                   film=dict(kind="box", w=w, h=h, points=draw(st.integers(36, 60)), center=[0.0, 0.0]),
                   holes=[dict(kind="ellipse", a=a, b=b, points=draw(st.integers(12, 24)), center=[-w / 2 + m + a, y0])],
                   terminals=[dict(name="src", width=hy, shape=dict(kind="box", w=2 * reach, h=hy, points=16, center=[-w / 2, y0 + draw(gen.rf(-0.1, 0.1))])),
                              dict(name="drn", width=0.6 * h, shape=dict(kind="box", w=0.4, h=0.6 * h, points=16, center=[w / 2, 0.05]))],
                   mesh=dict(max_edge_length=draw(gen.rf(0.45, 0.7)), min_points=None, smooth=0))
        sx = dev["layer"]["xi"] / 0.5  # template lengths are meant for xi ~ 0.5
        from .c08 import scale_shape
        dev["film"], dev["holes"] = scale_shape(dev["film"], sx), [scale_shape(x, sx) for x in dev["holes"]]
        dev["terminals"] = [dict(name=t["name"], width=t["width"] * sx, shape=scale_shape(t["shape"], sx)) for t in dev["terminals"]]
        dev["mesh"]["max_edge_length"] *= sx
        dev["pad_over_hole"] = True
    fu = draw(st.sampled_from(gen.FIELD_UNITS))
    cu = draw(st.sampled_from(gen.CURRENT_UNITS))
    fld = draw(gen.field(dev, fu, kinds=("zero", "constant", "float", "ramp", "gauge_param"), bmax=0.2 if scr else 0.5))
    cur = draw(gen.currents(dev, cu, kinds=("dict", "dict", "callable"), allow_zero=False))
    adaptive = draw(st.booleans())
    nsteps = draw(st.integers(5, 25 if not big else 40))
    # a thermalisation stage before the recorded one: the clock (and so a time-dependent current) restarts, whatever was
    # being injected at the end of the first stage
    skip = draw(st.sampled_from([0, 0, 1, nsteps // 2, nsteps, 2 * nsteps]))
    return dict(device=dev, field=fld, currents=cur,
                options=dict(dt_c=draw(gen.rf(0.05, 0.4)), dtmax_c=0.45, adaptive=adaptive, adaptive_window=draw(st.integers(1, 6)),
                             skip_steps=skip,
                             include_screening=scr, screening_tolerance=1e-3, field_units=fu, current_units=cu,
                             nsteps=nsteps, save_every=draw(st.sampled_from([1, 1, 2, 3, 5])),
                             terminal_psi=draw(st.sampled_from([0.0, 0.0, None, [0.3, 0.4]]))))


def strategy(tier):
    return _case(tier)


def check_case(spec):
    res = Result()
    dev = build.make_device_or_refuse(spec["device"])
    mesh = dev.mesh
    em = mesh.edge_mesh
    lay = spec["device"]["layer"]
    xi = lay["xi"]
    lu = spec["device"]["lu"]
    cu = spec["options"]["current_units"]
    sc = orc.si_scales(xi, lay["lam"], lay["d"], lu)
    cur_spec = spec["currents"]
    exact = build.exact_currents(cur_spec)
    assert sum(exact.values(), Fraction(0)) == 0

    # ---- terminal membership by the harness's own oracle
    bidx = em.boundary_edge_indices
    bcent = em.centers[bidx] * xi
    blen = em.edge_lengths[bidx]
    member = {}
    for t in spec["device"]["terminals"]:
        poly = build.make_polygon(t["shape"], name=t["name"]).points
        if np.any(orc.dist_to_polyline(poly, bcent) < 1e-9 * xi):
            res.label("discarded: ambiguous terminal membership")
            return res
        member[t["name"]] = orc.winding_contains(poly, bcent)
    names = list(member)
    overlap = np.sum([member[n].astype(int) for n in names], axis=0)
    if np.any(overlap > 1):
        res.label("discarded: overlapping terminals")
        return res

    with sim.workdir():
        opts = build.make_options(spec["options"], dev, output_file="out.h5")
        try:
            solver = build.make_solver(dev, opts, applied_vector_potential=build.make_vector_potential(spec["field"], dev, opts.field_units, opts.solve_time),
                                       terminal_currents=build.make_currents(cur_spec, opts.solve_time))
        except ValueError as exc:
            if "sum of all terminal currents" in str(exc):
                res.fail("C01.balanced_rejected", f"currents {dict((k, str(v)) for k, v in exact.items())} {cu} (exact sum 0, {len(exact)} terminals) rejected: {exc}")
                res.nontrivial = True
                return res
            if "does not contain any points" in str(exc):
                res.label("discarded: terminal without boundary sites")
                return res
            raise
        hist = sim.record_updates(solver)
        try:
            sol = solver.solve()
        except RuntimeError as exc:
            if "converge" in str(exc):
                res.label("documented non-convergence")
                return res
            raise
        frames, fixed = sim.read_frames(sol.path)

    calls = hist.stage_split()[-1] if hist.calls else []
    nt = len(names)
    if spec["device"].get("pad_over_hole"):
        res.label("contact pad reaching over a hole rim")
    res.label(f"terminals={nt}", f"holes={len(spec['device']['holes'])}", "screening" if opts.include_screening else "no screening",
              "adaptive" if opts.adaptive else "fixed dt", f"currents={cur_spec['kind']}{'+shift' if cur_spec.get('shift') else ''}", f"field={spec['field']['kind']}",
              f"units={lu}/{opts.field_units}/{cu}", "thermalisation stage" if spec["options"].get("skip_steps") else "single stage")
    if any("." in cur_spec["quantum"] or "e-" in cur_spec["quantum"] for _ in [0]):
        res.label("decimal currents")
    # library's own classification must agree with the oracle (same sites/edges)
    for ti in dev.terminal_info():
        mine = np.where(member[ti.name])[0]
        if set(map(int, ti.boundary_edge_indices)) != set(map(int, mine)):
            res.fail("C01.terminal_edges", f"terminal {ti.name}: library uses boundary edges {sorted(map(int, ti.boundary_edge_indices))[:8]}.. but the edges whose centre lies in the terminal polygon are {sorted(map(int, mine))[:8]}..")
            return res

    e0 = em.edges[bidx, 0]
    e1 = em.edges[bidx, 1]
    worst = 0.0
    for fr in frames:
        s = int(fr["attrs"]["step"])
        if s == 0:
            continue
        t_eval = calls[s - 1]["time"]
        I_now = build.currents_at(cur_spec, t_eval, opts.solve_time)
        f = 1.0 if any(v != 0 for v in I_now.values()) else 0.0
        J = fr["supercurrent"] + fr["normal_current"]
        div = orc.my_divergence(mesh, J) * mesh.areas  # net outflow of each cell
        inj = np.zeros(len(mesh.sites))
        per_terminal = {}
        for n in names:
            I_si = I_now[n] * orc.CURRENT[cu]
            L_si = float(np.sum(blen[member[n]])) * sc["xi_m"]
            Jt = 4 * I_si / (sc["K0"] * L_si)
            share = 0.5 * blen[member[n]] * Jt
            np.add.at(inj, e0[member[n]], share)
            np.add.at(inj, e1[member[n]], share)
            per_terminal[n] = 4 * I_si / (sc["K0"] * sc["xi_m"])
        scale = max(1.0, float(np.max(np.abs(J))) * float(np.max(em.dual_edge_lengths)), float(np.max(np.abs(inj))))
        err = np.abs(div - inj)
        worst = max(worst, float(err.max() / scale))
        if err.max() > 1e-9 * scale:
            i = int(np.argmax(err))
            where = "a terminal cell" if inj[i] != 0 else ("a boundary cell (insulating/hole edge)" if i in set(mesh.boundary_indices) else "an interior cell")
            res.fail("C01.cell_balance", f"step {s}: net current leaving cell {i} ({where}) is {div[i]:.6e}, terminal injection into it is {inj[i]:.6e} (scale {scale:.3e})")
            break
        # per terminal: total flux through the cells touching the terminal
        for n in names:
            cells = np.unique(np.concatenate([e0[member[n]], e1[member[n]]]))
            others = np.zeros(len(mesh.sites), dtype=bool)
            for m in names:
                if m != n:
                    others[np.unique(np.concatenate([e0[member[m]], e1[member[m]]]))] = True
            if np.any(others[cells]):
                continue
            tot = float(np.sum(div[cells]))
            if abs(tot - per_terminal[n]) > 1e-9 * max(1.0, abs(per_terminal[n]), scale):
                res.fail("C01.terminal_current", f"step {s}: current entering through terminal {n} is {tot:.6e} (dimensionless), requested {per_terminal[n]:.6e} = 4 I/(K0 xi) with I={I_now[n]} {cu}")
                break
        if res.violations:
            break
        if f != 0 and np.max(np.abs(fr["supercurrent"])) > 1e-6:
            res.nontrivial = True
    res.stat("cell_balance_residual", worst)
    return res
