"""C06 - the order parameter is pinned on current terminals and nowhere else."""
import numpy as np
from hypothesis import strategies as st

from .. import build, gen, sim
from .. import oracles as orc
from ..engine import Result

PID = "C06"
TITLE = "The order parameter is pinned on current terminals and nowhere else"
LEVEL = "exploration"
TECHNIQUE = "whole simulations from generated devices; invariant over every recorded frame (psi on terminal sites == configured value), differential run against the same mesh without terminals for the unset case, and a not-pinned-elsewhere predicate"
RULE = (
    "case = generated device with 1..4 terminals x terminal value in {0, None, generated complex |v|<=1} x field/current drive x "
    "screening on/off (operators refreshed every iteration) x adaptive on/off, 6..40 steps, every frame recorded or every 2nd/3rd; "
    "non-trivial = driven run (field or current non-zero) with >= 4 terminal sites; distinct by spec hash"
    "; optional history: the same device object simulated before with another terminal setting, optionally as the starting state"
)
ASSUMPTIONS = [
    "terminal sites = boundary sites inside a terminal polygon, recomputed by winding number (cases with a boundary site within 1e-9 of a terminal outline are discarded)",
    "'evolve freely' for an unset terminal value is decided by comparison with the same mesh attached to a device without terminals, zero currents (1e-10)",
]
LEVEL_TEXT = "Every terminal site of every recorded frame is an instance; Hypothesis varies geometry, terminal value, drive and options."
LEVEL_NOTE = "Trusted: winding-number membership; exact equality for the value 0, 1e-12 for non-zero values."


def budget(tier):
    if tier == "quick":
        return dict(max_examples=500, workers=8, time_s=170, min_cases=120)
    return dict(max_examples=20000, workers=16, time_s=1200, min_cases=240)


@st.composite
def _case(draw, tier):
    scr = draw(st.integers(0, 4)) == 0
    dev = draw(gen.device(terminals=(1, 4), holes=(0, 1), probes=(0, 2), film_kinds=("box", "ellipse", "union"),
                          size=(3.5, 6.0), screening=scr).filter(gen.valid_device))
    fu = draw(st.sampled_from(gen.FIELD_UNITS))
    cu = draw(st.sampled_from(gen.CURRENT_UNITS))
    tp = draw(st.sampled_from(["zero", "zero", "none", "none", "value", "value"]))
    if tp == "zero":
        tpsi = draw(st.sampled_from([0.0, 0]))
    elif tp == "none":
        tpsi = None
    else:
        r = draw(gen.rf(0.05, 1.0))
        th = draw(gen.rf(-3.1, 3.1))
        tpsi = draw(st.sampled_from([[round(r * np.cos(th), 6), round(r * np.sin(th), 6)], r, 1.0, [0.3, 0.4]]))
        if isinstance(tpsi, list) and abs(complex(*tpsi)) > 1:
            tpsi = [0.6, -0.8]
    fld = draw(gen.field(dev, fu, kinds=("zero", "constant", "ramp", "ramp", "float"), bmax=0.2 if scr else 0.5))
    cur = draw(gen.currents(dev, cu, kinds=("dict", "callable"))) if tp != "none" or draw(st.booleans()) else None
    # history: the same device object may have been simulated before with another terminal setting (a sweep over contact
    # types in one process), and that earlier result may be the starting state of this run
    prior = None
    if draw(st.integers(0, 2)) == 0:
        others = [k for k in ("zero", "none", "value") if k != tp]
        prior = dict(kind=draw(st.sampled_from(others)), as_seed=draw(st.booleans()), nsteps=draw(st.integers(2, 8)))
    return dict(device=dev, field=fld, currents=cur, prior=prior,
                options=dict(dt_c=draw(gen.rf(0.05, 0.4)), dtmax_c=0.45, adaptive=draw(st.booleans()), adaptive_window=draw(st.integers(1, 6)),
                             include_screening=scr, screening_tolerance=1e-3, field_units=fu, current_units=cu,
                             nsteps=draw(st.integers(6, 25 if tier == "quick" else 40)), save_every=draw(st.sampled_from([1, 1, 2, 3])),
                             terminal_psi=tpsi))


def strategy(tier):
    return _case(tier)


def _run(dev, spec, opts_over=None, with_currents=True):
    with sim.workdir():
        seed = None
        pr = spec.get("prior")
        if pr and with_currents:
            tp0 = {"zero": 0.0, "none": None, "value": [0.5, 0.0]}[pr["kind"]]
            o0 = dict(spec["options"], terminal_psi=tp0, nsteps=int(pr["nsteps"]), save_every=100)
            opts0 = build.make_options(o0, dev, output_file="earlier.h5")
            sol0 = build.make_solver(dev, opts0, applied_vector_potential=build.make_vector_potential(spec["field"], dev, opts0.field_units, opts0.solve_time),
                                     terminal_currents=build.make_currents(spec["currents"], opts0.solve_time)).solve()
            _ = sol0.tdgl_data
            seed = sol0 if pr["as_seed"] else None
        opts = build.make_options(spec["options"], dev, output_file="out.h5", **(opts_over or {}))
        solver = build.make_solver(dev, opts, applied_vector_potential=build.make_vector_potential(spec["field"], dev, opts.field_units, opts.solve_time),
                                   terminal_currents=build.make_currents(spec["currents"], opts.solve_time) if with_currents else None,
                                   seed_solution=seed)
        fixed = np.array(solver.operators.fixed_sites)
        sol = solver.solve()
        frames, _ = sim.read_frames(sol.path)
        # times at which the updates of the run were made (what a time-dependent drive was evaluated at)
        opts._vt_update_times = np.concatenate([[0.0], np.cumsum(sol.dynamics.dt)[:-1]]) if len(sol.dynamics.dt) else np.array([])
    return frames, fixed, opts


def check_case(spec):
    import tdgl

    res = Result()
    dev = build.make_device_or_refuse(spec["device"])
    mesh = dev.mesh
    xi = spec["device"]["layer"]["xi"]
    pts = mesh.sites * xi
    bsites = mesh.boundary_indices
    tsites = []
    for t in spec["device"]["terminals"]:
        poly = build.make_polygon(t["shape"], name=t["name"]).points
        if np.any(orc.dist_to_polyline(poly, pts[bsites]) < 1e-9 * xi):
            res.label("discarded: ambiguous terminal membership")
            return res
        tsites.append(bsites[orc.winding_contains(poly, pts[bsites])])
    tsites = np.unique(np.concatenate(tsites)) if tsites else np.array([], dtype=int)
    tp = spec["options"]["terminal_psi"]
    value = None if tp is None else (complex(*tp) if isinstance(tp, list) else complex(tp))
    kind = "none" if value is None else ("zero" if value == 0 else "nonzero")
    driven = spec["field"]["kind"] != "zero" or spec["currents"] is not None
    res.label(f"terminal_psi={kind}", f"terminals={len(spec['device']['terminals'])}", "driven" if driven else "undriven",
              "screening" if spec["options"]["include_screening"] else "no screening")
    if spec.get("prior"):
        res.label(f"same device simulated before with terminal_psi={spec['prior']['kind']}" + (", used as the starting state" if spec["prior"]["as_seed"] else ""))
    try:
        frames, fixed, opts = _run(dev, spec)
    except RuntimeError as exc:
        if "converge" in str(exc):
            res.label("documented non-convergence")
            return res
        raise
    except ValueError as exc:
        if "does not contain any points" in str(exc):
            res.label("discarded: terminal without boundary sites")
            return res
        raise
    lib_sites = np.unique(np.concatenate([np.asarray(t.site_indices) for t in dev.terminal_info()])) if dev.terminals else np.array([], dtype=int)
    if set(map(int, lib_sites)) != set(map(int, tsites)):
        res.fail("C06.terminal_sites", f"library treats sites {sorted(map(int, lib_sites))[:10]} as terminal sites, boundary sites inside the terminal polygons are {sorted(map(int, tsites))[:10]}")
        return res
    if driven and spec["field"]["kind"] == "zero" and spec["currents"] is not None and spec["currents"]["kind"] == "callable":
        # a current that is switched on during the run drives it only if some update was made after the switch (with an
        # adaptive step the last update can come before it: such a run is undriven and psi = 1 stays exactly)
        tt = getattr(opts, "_vt_update_times", np.array([]))
        # (the potential built up by the first driven update acts on psi in the next one, so far-away sites only move from the
        #  second or third driven update on)
        if sum(build.current_factor(spec["currents"], float(t), opts.solve_time) != 0 for t in tt) < 3:
            driven = False
            res.label("current switched on during the last updates only: counted as undriven")
    res.nontrivial = driven and len(tsites) >= 4
    nsteps = int(frames[-1]["attrs"]["step"])

    if value is not None:
        worst = 0.0
        for fr in frames:
            dev_ = np.abs(fr["psi"][tsites] - value)
            worst = max(worst, float(dev_.max()) if len(dev_) else 0.0)
            tol = 0.0 if value == 0 else 1e-12
            if len(dev_) and dev_.max() > tol:
                i = int(tsites[int(np.argmax(dev_))])
                res.fail("C06.pinned_value", f"step {int(fr['attrs']['step'])}: psi at terminal site {i} is {fr['psi'][i]!r}, configured terminal value is {value!r} (|difference| {dev_.max():.3e})")
                break
        res.stat("terminal_value_deviation", worst)
    else:
        # unset: terminal sites evolve like any other site <=> same result as a device without terminals
        # (only comparable when no current is injected)
        if spec["currents"] is None and not (spec.get("prior") and spec["prior"]["as_seed"]):
            d2 = dict(spec["device"], terminals=[])
            dev2 = build.make_device(d2, cache=False, with_mesh=False)
            dev2.mesh = dev.mesh
            frames2, fixed2, _ = _run(dev2, spec, with_currents=False)
            worst = 0.0
            for a, b in zip(frames, frames2):
                worst = max(worst, float(np.max(np.abs(a["psi"] - b["psi"]))))
            res.stat("unset_vs_no_terminals", worst)
            if len(frames) != len(frames2) or worst > 1e-10:
                res.fail("C06.unset_evolves_freely", f"terminal_psi=None: run differs from the same mesh without terminals by {worst:.3e}")
            res.label("compared with terminal-free device")
        # and they are not held at any constant in a driven run
        if driven and nsteps >= 4 and len(tsites):
            same = np.array([all(fr["psi"][i] == frames[0]["psi"][i] for fr in frames) for i in tsites])
            if np.any(same):
                res.fail("C06.unset_is_pinned", f"terminal_psi=None but terminal site {int(tsites[int(np.argmax(same))])} keeps its initial value bit for bit over {nsteps} driven steps")

    # nowhere else: no free site keeps its initial value bit for bit in a driven run
    if driven and nsteps >= 4:
        free = np.setdiff1d(np.arange(len(mesh.sites)), tsites)
        stuck = [int(i) for i in free if all(fr["psi"][i] == frames[0]["psi"][i] for fr in frames)]
        if stuck:
            res.fail("C06.pinned_elsewhere", f"free site(s) {stuck[:6]} keep their initial value bit for bit over {nsteps} driven steps")
    # the operators' pinned set is the terminal set (or empty when unset rows are ordinary rows)
    if value is not None and set(map(int, fixed)) != set(map(int, tsites)):
        res.fail("C06.pinned_set", f"operators pin sites {sorted(map(int, fixed))[:10]}, terminal sites are {sorted(map(int, tsites))[:10]}")
    return res
