"""C18 - polygon and device geometry operations mean what they say."""
import copy
import math

import numpy as np
from hypothesis import strategies as st

from .. import build, gen
from .. import oracles as orc
from ..engine import Result

PID = "C18"
TITLE = "Polygon and device geometry operations mean what they say"
LEVEL = "exploration"
TECHNIQUE = "generated shapes, set-operation chains and affine transforms checked against point-wise membership (winding-number oracle), area laws, pre-image consistency, and aliasing/mutation predicates on the original objects"
RULE = (
    "case = shapes from box/circle/ellipse primitives (any vertex count, orientation, centre, rotation) x a chain of 1..3 set operations (method, "
    "operator or classmethod form) with overlapping partners (plus unconstrained pairs where a ValueError is admissible, counted) x 0..3 transforms "
    "(rotate/translate/scale incl. reflections, unequal factors and the 'center'/'centroid' origins, in place or not) x a jittered grid of probe "
    "points, or a device (film, holes, probe points) under copy/scale/rotate/translate and the temporary `translation()` context (queried inside and after the block); non-trivial = boundaries of a pair intersect, or a "
    "transform with a reflection; distinct by spec hash"
    "; notch-and-bar histories that can enclose a void; set operations without operands"
)
ASSUMPTIONS = [
    "membership is asserted only at probe points farther than 1e-6 x size from every boundary involved",
    "a ValueError from a set operation whose exact result is not a single simply-connected polygon is the documented behaviour, not a violation",
    "a set-operation result whose area is below 1e-9 of the operands' or that has a feature (vertex-to-edge distance) below 1e-6 of its size - outlines touching along a line - is a degenerate sliver and the case is discarded",
]
LEVEL_TEXT = "Each case checks every probe point and every intermediate polygon; Hypothesis varies shapes, operation chains and transform parameters."
LEVEL_NOTE = "Trusted: the harness's winding-number test, shoelace area, affine maps; tolerance 1e-9 on areas."


def budget(tier):
    if tier == "quick":
        return dict(max_examples=4000, workers=8, time_s=170, min_cases=1000)
    return dict(max_examples=300000, workers=16, time_s=1200, min_cases=2000)


@st.composite
def _shape(draw, near=None, scale=1.0):
    """A primitive; ``near`` = (cx, cy, r): place the centre within r of (cx, cy)."""
    kind = draw(st.sampled_from(["box", "ellipse", "circle"]))
    if near is None:
        c = [draw(gen.rf(-5, 5)), draw(gen.rf(-5, 5))]
    else:
        ang = draw(gen.rf(0, 6.28))
        rad = draw(gen.rf(0.0, 1.0)) * near[2]
        c = [near[0] + rad * math.cos(ang), near[1] + rad * math.sin(ang)]
    pts = draw(st.integers(8, 60))
    if kind == "box":
        s = dict(kind="box", w=draw(gen.rf(0.5, 4)) * scale, h=draw(gen.rf(0.5, 4)) * scale, points=max(pts, 12), center=[0.0, 0.0])
    elif kind == "ellipse":
        s = dict(kind="ellipse", a=draw(gen.rf(0.4, 2.5)) * scale, b=draw(gen.rf(0.4, 2.5)) * scale, points=pts, center=[0.0, 0.0])
    else:
        s = dict(kind="circle", r=draw(gen.rf(0.4, 2.5)) * scale, points=pts, center=[0.0, 0.0])
    s["rot"] = draw(st.sampled_from([0, 0, 17.0, 90, -45.5, 180]))
    s["rot_origin"] = [0.0, 0.0]
    s["shift"] = c
    if draw(st.booleans()):
        s["reverse"] = True
    return s


def _extent(s):
    return max(s.get("w", 0), s.get("h", 0), 2 * s.get("a", 0), 2 * s.get("b", 0), 2 * s.get("r", 0))


def _inner_radius(s):
    return 0.5 * min(v for v in (s.get("w"), s.get("h"), 2 * s.get("a", 0) or None, 2 * s.get("b", 0) or None, 2 * s.get("r", 0) or None) if v)


@st.composite
def _transform(draw):
    t = draw(st.sampled_from(["rotate", "translate", "scale", "scale"]))
    origin = draw(st.sampled_from(["center", "centroid", [0.0, 0.0], [1.5, -2.0]]))
    inplace = draw(st.booleans())
    if t == "rotate":
        return dict(t=t, deg=draw(st.sampled_from([90.0, 33.3, -120.0, 180.0, 1e-3, 725.0])), origin=origin, inplace=inplace)
    if t == "translate":
        return dict(t=t, dx=draw(gen.rf(-3, 3)), dy=draw(gen.rf(-3, 3)), inplace=inplace)
    fx = draw(st.sampled_from([1.0, -1.0, 2.0, 0.5, -0.3, 3.0]))
    fy = draw(st.sampled_from([1.0, -1.0, 2.0, 0.5, -2.5, 0.7]))
    return dict(t=t, fx=fx, fy=fy, origin=origin, inplace=inplace)


@st.composite
def _poly_case(draw, tier):
    base = draw(_shape())
    ops = []
    cur_c, cur_r = base["shift"], _inner_radius(base)
    for _ in range(draw(st.integers(0, 3))):
        op = draw(st.sampled_from(["union", "intersection", "difference"]))
        constrained = draw(st.integers(0, 5)) > 0
        if constrained:
            if op == "difference":
                # a smaller shape whose centre is near the boundary of the current one: straddles it
                other = draw(_shape(near=(cur_c[0] + cur_r, cur_c[1], 0.3 * cur_r), scale=0.35))
            else:
                other = draw(_shape(near=(cur_c[0], cur_c[1], 0.5 * cur_r)))
        else:
            other = draw(_shape())
        ops.append(dict(op=op, other=other, via=draw(st.sampled_from(["method", "operator", "classmethod", "array"])), constrained=constrained))
    trs = [draw(_transform()) for _ in range(draw(st.integers(0, 3)))]
    return dict(kind="polygon", base=base, ops=ops, transforms=trs,
                grid=dict(n=draw(st.integers(8, 16)), jx=draw(gen.rf(0, 0.4)), jy=draw(gen.rf(0, 0.4)), k=[draw(gen.rf(0.5, 5)) for _ in range(2)]))


@st.composite
def _notch_case(draw, tier):
    """A history that can enclose a void: a notch is cut into one side of a shape (difference), then a bar is laid across the
    notch's mouth (union).  When the bar covers the whole mouth the exact union is not simply connected (a ValueError is the
    documented answer); otherwise it is an ordinary polygon.  Either way the answer must agree with point-wise membership."""
    w, h = draw(gen.rf(2.0, 5.0)), draw(gen.rf(2.0, 5.0))
    c = [draw(gen.rf(-3, 3)), draw(gen.rf(-3, 3))]
    base = dict(kind=draw(st.sampled_from(["box", "box", "ellipse"])), points=draw(st.integers(20, 60)), center=[0.0, 0.0], rot=0, rot_origin=[0.0, 0.0], shift=c)
    if base["kind"] == "box":
        base.update(w=w, h=h)
        edge_x = c[0] + w / 2
    else:
        base.update(a=w / 2, b=h / 2)
        edge_x = c[0] + w / 2
    bw, bh = draw(gen.rf(0.25, 0.6)) * w, draw(gen.rf(0.15, 0.45)) * h
    dy = draw(gen.rf(-0.15, 0.15)) * h
    notch = dict(kind=draw(st.sampled_from(["box", "ellipse"])), points=draw(st.integers(12, 40)), center=[0.0, 0.0], rot=0, rot_origin=[0.0, 0.0],
                 shift=[edge_x - draw(gen.rf(0.0, 0.2)) * bw, c[1] + dy])
    if notch["kind"] == "box":
        notch.update(w=bw, h=bh)
    else:
        notch.update(a=bw / 2, b=bh / 2)
    # the bar: thinner than the notch is deep, placed over the mouth; its height decides whether the mouth is closed completely
    bar = dict(kind="box", w=draw(gen.rf(0.1, 0.35)) * bw, h=draw(st.sampled_from([0.5, 0.8, 1.2, 1.5, 2.0])) * bh, points=draw(st.integers(12, 40)),
               center=[0.0, 0.0], rot=0, rot_origin=[0.0, 0.0], shift=[edge_x - draw(gen.rf(0.0, 0.1)) * bw, c[1] + dy + draw(gen.rf(-0.1, 0.1)) * bh])
    if draw(st.booleans()):
        bar["reverse"] = True
    via = st.sampled_from(["method", "operator", "classmethod", "array"])
    ops = [dict(op="difference", other=notch, via=draw(via), constrained=True),
           dict(op="union", other=bar, via=draw(via), constrained=False)]
    trs = [draw(_transform()) for _ in range(draw(st.integers(0, 1)))]
    return dict(kind="polygon", base=base, ops=ops, transforms=trs, notch=True,
                grid=dict(n=draw(st.integers(12, 20)), jx=draw(gen.rf(0, 0.4)), jy=draw(gen.rf(0, 0.4)), k=[draw(gen.rf(0.5, 5)) for _ in range(2)]))


@st.composite
def _device_case(draw, tier):
    d = draw(gen.device(terminals=(0, 2), holes=(0, 2), probes=(0, 2, 3), film_kinds=("box", "ellipse", "union"), size=(3.5, 7.0)).filter(gen.valid_device))
    return dict(kind="device", device=d, transforms=[dict(draw(_transform()), inplace=False) for _ in range(draw(st.integers(1, 2)))],
                context=dict(dx=draw(gen.rf(-5.0, 5.0)), dy=draw(gen.rf(-5.0, 5.0))),
                grid=dict(n=draw(st.integers(8, 14)), jx=draw(gen.rf(0, 0.4)), jy=draw(gen.rf(0, 0.4)), k=[draw(gen.rf(0.5, 5)) for _ in range(2)]))


def strategy(tier):
    return st.one_of(_poly_case(tier), _poly_case(tier), _poly_case(tier), _notch_case(tier), _device_case(tier))


# ------------------------------------------------------------------ oracle helpers


def probe_grid(g, lo, hi):
    n = g["n"]
    I, J = np.meshgrid(np.arange(n), np.arange(n), indexing="ij")
    x = lo[0] + (I + 0.5 + g["jx"] * np.sin(g["k"][0] * I + J)) / n * (hi[0] - lo[0])
    y = lo[1] + (J + 0.5 + g["jy"] * np.cos(g["k"][1] * J + I)) / n * (hi[1] - lo[1])
    return np.stack([x.ravel(), y.ravel()], axis=1)


def centroid(pts):
    p = np.asarray(pts)
    if np.allclose(p[0], p[-1]):
        p = p[:-1]
    x, y = p[:, 0], p[:, 1]
    c = x * np.roll(y, -1) - np.roll(x, -1) * y
    a = c.sum() / 2
    return np.array([((x + np.roll(x, -1)) * c).sum() / (6 * a), ((y + np.roll(y, -1)) * c).sum() / (6 * a)])


def origin_of(o, pts):
    if o == "center":
        return 0.5 * (np.min(pts, axis=0) + np.max(pts, axis=0))
    if o == "centroid":
        return centroid(pts)
    return np.array(o, dtype=float)


def apply_map(tr, q, pts_before):
    q = np.asarray(q, dtype=float)
    if tr["t"] == "translate":
        return q + np.array([tr["dx"], tr["dy"]])
    o = origin_of(tr["origin"], pts_before)
    if tr["t"] == "rotate":
        th = math.radians(tr["deg"])
        R = np.array([[math.cos(th), -math.sin(th)], [math.sin(th), math.cos(th)]])
        return (q - o) @ R.T + o
    return (q - o) * np.array([tr["fx"], tr["fy"]]) + o


def min_feature(pts):
    """smallest distance between a vertex and a non-incident edge of the closed polygon (thin slivers / spikes -> ~0)"""
    p = np.asarray(pts, dtype=float)
    if np.allclose(p[0], p[-1]):
        p = p[:-1]
    n = len(p)
    if n < 4:
        return float("inf") if n < 3 else 0.0
    a = p
    b = np.roll(p, -1, axis=0)
    best = np.inf
    for i in range(n):
        ab = b - a
        L2 = np.einsum("ij,ij->i", ab, ab)
        t = np.clip(np.einsum("ij,ij->i", p[i] - a, ab) / np.where(L2 > 0, L2, 1), 0, 1)
        d = np.linalg.norm(p[i] - (a + t[:, None] * ab), axis=1)
        d[i] = np.inf
        d[(i - 1) % n] = np.inf
        best = min(best, float(d.min()))
    return best


def stored_ok(res, poly, what):
    pts = poly.points
    if not np.allclose(pts[0], pts[-1]):
        res.fail("C18.closed", f"{what}: stored vertices are not closed")
    if orc.shoelace(pts) <= 0:
        res.fail("C18.orientation", f"{what}: stored vertices are clockwise (signed area {orc.shoelace(pts):.3g})")
    if abs(abs(orc.shoelace(pts)) - poly.area) > 1e-9 * max(poly.area, 1e-12):
        res.fail("C18.area_property", f"{what}: .area={poly.area} but shoelace of the stored vertices gives {abs(orc.shoelace(pts))}")


def transform_poly(poly, tr):
    o = tr.get("origin")
    if isinstance(o, list):
        o = tuple(o)
    if tr["t"] == "rotate":
        return poly.rotate(tr["deg"], origin=o, inplace=tr["inplace"])
    if tr["t"] == "translate":
        return poly.translate(tr["dx"], tr["dy"], inplace=tr["inplace"])
    return poly.scale(xfact=tr["fx"], yfact=tr["fy"], origin=o, inplace=tr["inplace"])


def check_case(spec):
    res = Result()
    if spec["kind"] == "device":
        return _device(spec, res)
    import tdgl

    P = build.make_polygon(spec["base"], name="P")
    stored_ok(res, P, "constructor")
    size = float(np.ptp(P.points, axis=0).max())
    member = orc.winding_contains  # oracle
    cur_pts_list = [P.points.copy()]
    expr = lambda q: member(cur_pts_list[0], q)  # noqa: E731
    bounds = [P.points.copy()]
    crossing = False
    convex = True  # P is convex so far (primitives are; intersections of convex sets stay convex)
    for k, op in enumerate(spec["ops"]):
        O = build.make_polygon(op["other"], name="O")
        before_P, before_O = P.points.copy(), O.points.copy()
        try:
            if op["via"] == "method":
                Rp = getattr(P, op["op"])(O)
            elif op["via"] == "operator":
                Rp = {"union": lambda: P + O, "intersection": lambda: P * O, "difference": lambda: P - O}[op["op"]]()
            elif op["via"] == "array":
                Rp = getattr(P, op["op"])(O.points)
            else:
                Rp = getattr(tdgl.Polygon, "from_" + op["op"])([P, O], name="P")
        except ValueError as exc:
            # admissible iff the exact result is not a single simply connected polygon: decide with probe points is
            # not possible in general, so only constrained (guaranteed-overlap) union/intersection may not raise
            if op["constrained"] and op["op"] in ("union", "intersection") and k == 0:
                res.fail("C18.setop_rejected", f"{op['op']} of two overlapping convex shapes raised: {exc}")
            res.label("set operation rejected (ValueError)")
            break
        if abs(orc.shoelace(Rp.points)) < 1e-9 * min(abs(orc.shoelace(before_P)), abs(orc.shoelace(before_O))) or min_feature(Rp.points) < 1e-6 * size:
            # two outlines that touch along (almost) a line: the exact result is empty, a sliver of width ~1e-8 or carries
            # zero-width spikes; its area, orientation and validity under a further transform are rounding noise, so nothing
            # meaningful can be asserted about it (found by the thorough tier: 22 of 96000 cases)
            res.label("degenerate sliver result (discarded)")
            return res
        if not np.array_equal(P.points, before_P) or not np.array_equal(O.points, before_O):
            res.fail("C18.mutated_operand", f"{op['op']} ({op['via']}) modified an operand")
        if np.shares_memory(Rp.points, P.points) or np.shares_memory(Rp.points, O.points):
            res.fail("C18.aliasing", f"result of {op['op']} shares memory with an operand")
        stored_ok(res, Rp, f"{op['op']} ({op['via']})")
        # membership: Boolean combination of the operands away from all boundaries
        lo = np.minimum(P.points.min(axis=0), O.points.min(axis=0)) - 0.1 * size
        hi = np.maximum(P.points.max(axis=0), O.points.max(axis=0)) + 0.1 * size
        q = probe_grid(spec["grid"], lo, hi)
        far = (orc.dist_to_polyline(P.points, q) > 1e-6 * size) & (orc.dist_to_polyline(O.points, q) > 1e-6 * size) & (orc.dist_to_polyline(Rp.points, q) > 1e-6 * size)
        inP, inO = member(P.points, q), member(O.points, q)
        want = {"union": inP | inO, "intersection": inP & inO, "difference": inP & ~inO}[op["op"]]
        got = member(Rp.points, q)
        bad = far & (want != got)
        if np.any(bad):
            j = int(np.argmax(bad))
            res.fail("C18.setop_membership", f"{op['op']} ({op['via']}): point {q[j].tolist()} is {'in' if got[j] else 'out of'} the result but P:{bool(inP[j])} O:{bool(inO[j])}")
        lib = Rp.contains_points(q)
        if np.any(far & (lib != got)):
            j = int(np.argmax(far & (lib != got)))
            res.fail("C18.contains_points", f"Polygon.contains_points disagrees with the winding number at {q[j].tolist()}")
        if np.any(inP & inO) and np.any(inP & ~inO) and np.any(inO & ~inP):
            crossing = True
        P = Rp
        P.name = "P"
        convex = convex and op["op"] == "intersection"
        if res.violations:
            return res
    res.label(f"ops={len(spec['ops'])}", f"transforms={len(spec['transforms'])}")
    if spec.get("notch"):
        res.label("notch + bar history" + (" (accepted)" if len(cur_pts_list) and P is not None and not any(l.startswith("set operation rejected") for l in res.labels) else " (rejected)"))
    reflected = False
    for tr in spec["transforms"]:
        before = P.points.copy()
        area0 = abs(orc.shoelace(before))
        lo, hi = before.min(axis=0) - 0.2 * size, before.max(axis=0) + 0.2 * size
        q = probe_grid(spec["grid"], lo, hi)
        far = orc.dist_to_polyline(before, q) > 1e-6 * size
        inside0 = member(before, q)
        try:
            Q = transform_poly(P, tr)
        except Exception as exc:  # noqa: BLE001
            res.fail("C18.transform_raised", f"{tr}: {type(exc).__name__}: {exc}")
            return res
        if tr["inplace"]:
            if Q is not P:
                res.fail("C18.inplace_returns_self", f"{tr['t']}(inplace=True) did not return self")
        else:
            if Q is P:
                res.fail("C18.not_inplace_returns_copy", f"{tr['t']}(inplace=False) returned self")
            if not np.array_equal(P.points, before):
                res.fail("C18.mutated_original", f"{tr['t']}(inplace=False) changed the original polygon")
            if np.shares_memory(Q.points, P.points):
                res.fail("C18.aliasing", f"{tr['t']}(inplace=False) result shares memory with the original")
        stored_ok(res, Q, f"{tr['t']}")
        factor = abs(tr["fx"] * tr["fy"]) if tr["t"] == "scale" else 1.0
        if tr["t"] == "scale" and tr["fx"] * tr["fy"] < 0:
            reflected = True
        area1 = abs(orc.shoelace(Q.points))
        if abs(area1 - factor * area0) > 1e-9 * max(factor * area0, 1e-12):
            res.fail("C18.area_law", f"{tr}: area {area0:.12g} -> {area1:.12g}, expected factor {factor}")
        tq = apply_map(tr, q, before)
        inside1 = member(Q.points, tq)
        far1 = far & (orc.dist_to_polyline(Q.points, tq) > 1e-6 * size * max(1.0, factor))
        bad = far1 & (inside0 != inside1)
        if np.any(bad):
            j = int(np.argmax(bad))
            res.fail("C18.preimage", f"{tr}: point {q[j].tolist()} (inside={bool(inside0[j])}) maps to {tq[j].tolist()} (inside image={bool(inside1[j])})")
        P = Q
        size = max(float(np.ptp(P.points, axis=0).max()), 1e-9)
        if res.violations:
            return res
    # set operations with no operand ("zero or more"): an independent, equal polygon - never the original itself
    before = P.points.copy()
    for opn in ("union", "intersection", "difference"):
        try:
            Z = getattr(P, opn)()
        except Exception as exc:  # noqa: BLE001
            res.fail("C18.setop_no_operand", f"{opn}() without operands raised {type(exc).__name__}: {exc}")
            continue
        if Z is P or np.shares_memory(Z.points, P.points):
            res.fail("C18.aliasing", f"{opn}() without operands returned the original polygon / shares its vertices")
        if not np.array_equal(Z.points, before) or not np.array_equal(P.points, before):
            res.fail("C18.setop_no_operand", f"{opn}() without operands changed the vertices")
        if Z is not P:
            Z.translate(0.37, -0.21, inplace=True)
            if not np.array_equal(P.points, before):
                res.fail("C18.aliasing", f"moving the result of {opn}() in place moved the original")
    # copy()
    c = P.copy()
    if c is P or np.shares_memory(c.points, P.points) or not np.array_equal(c.points, P.points) or c != P:
        res.fail("C18.copy", "copy() is not an independent equal polygon")
    # resample(): another non-in-place operation (num_points falsy but not None = "an unaltered copy")
    before = P.points.copy()
    for n in (0, None, 7 + len(before) % 23):
        try:
            R = P.resample(n)
        except Exception as exc:  # noqa: BLE001
            res.label(f"resample raised {type(exc).__name__}")
            continue
        stored_ok(res, R, f"resample({n})")
        if R is P or np.shares_memory(R.points, P.points) or not np.array_equal(P.points, before):
            res.fail("C18.resample_aliasing", f"resample({n}) returned an aliased polygon or changed the original")
        if n == 0 and not np.array_equal(R.points, before):
            res.fail("C18.resample_aliasing", "resample(0) is documented to return an unaltered copy")
    res.nontrivial = crossing or reflected
    if crossing:
        res.label("boundaries intersect")
    if reflected:
        res.label("reflection")
    return res


def _device(spec, res):
    dspec = spec["device"]
    dev = build.make_device(dspec, cache=False, with_mesh=False)
    film = dev.film.points.copy()
    holes = [h.points.copy() for h in dev.holes]
    size = float(np.ptp(film, axis=0).max())
    lo, hi = film.min(axis=0) - 0.1 * size, film.max(axis=0) + 0.1 * size
    q = probe_grid(spec["grid"], lo, hi)
    far = orc.dist_to_polyline(film, q) > 1e-6 * size
    want = orc.winding_contains(film, q)
    for h in holes:
        far &= orc.dist_to_polyline(h, q) > 1e-6 * size
        want &= ~orc.winding_contains(h, q)
    got = dev.contains_points(q)
    res.label("device", f"holes={len(holes)}")
    if np.any(far & (got != want)):
        j = int(np.argmax(far & (got != want)))
        res.fail("C18.device_contains", f"Device.contains_points({q[j].tolist()}) = {bool(got[j])}, film and not holes = {bool(want[j])}")
    idx = dev.contains_points(q, index=True)
    if set(map(int, idx)) != set(np.where(got)[0]):
        res.fail("C18.device_contains_index", "index=True does not list the points for which the mask is True")
    snapshot = (film.copy(), [h.copy() for h in holes], None if dev.probe_points is None else dev.probe_points.copy(), [t.points.copy() for t in dev.terminals])
    reflected = False
    for tr in spec["transforms"]:
        try:
            if tr["t"] == "rotate":
                o = tr["origin"] if isinstance(tr["origin"], list) else [0.0, 0.0]
                tr = dict(tr, origin=o)
                d2 = dev.rotate(tr["deg"], origin=tuple(o))
            elif tr["t"] == "translate":
                d2 = dev.translate(tr["dx"], tr["dy"])
            else:
                o = tr["origin"] if isinstance(tr["origin"], list) else [0.0, 0.0]
                tr = dict(tr, origin=o)
                d2 = dev.scale(xfact=tr["fx"], yfact=tr["fy"], origin=tuple(o))
                reflected = reflected or tr["fx"] * tr["fy"] < 0
        except Exception as exc:  # noqa: BLE001
            res.fail("C18.device_transform_raised", f"{tr}: {type(exc).__name__}: {exc}")
            return res
        # the original is untouched
        if not (np.array_equal(dev.film.points, snapshot[0]) and all(np.array_equal(a.points, b) for a, b in zip(dev.holes, snapshot[1]))
                and all(np.array_equal(a.points, b) for a, b in zip(dev.terminals, snapshot[3]))
                and (snapshot[2] is None or np.array_equal(dev.probe_points, snapshot[2]))):
            res.fail("C18.device_mutated", f"Device.{tr['t']} changed the original device")
        if d2 is dev or np.shares_memory(d2.film.points, dev.film.points):
            res.fail("C18.device_aliasing", f"Device.{tr['t']} returned an aliased device")
        # polygons and probe points move with the same affine map
        tq = apply_map(tr, q, film)
        got2 = d2.contains_points(tq)
        factor = abs(tr["fx"] * tr["fy"]) if tr["t"] == "scale" else 1.0
        far2 = far & (orc.dist_to_polyline(d2.film.points, tq) > 1e-6 * size * max(1.0, factor))
        for h in d2.holes:
            far2 &= orc.dist_to_polyline(h.points, tq) > 1e-6 * size * max(1.0, factor)
        if np.any(far2 & (got2 != want)):
            j = int(np.argmax(far2 & (got2 != want)))
            res.fail("C18.device_preimage", f"Device.{tr['t']}: point {q[j].tolist()} (in device: {bool(want[j])}) maps to {tq[j].tolist()} (in transformed device: {bool(got2[j])})")
        if dev.probe_points is not None:
            wantp = apply_map(tr, dev.probe_points, film)
            if d2.probe_points is None or not np.allclose(d2.probe_points, wantp, rtol=1e-12, atol=1e-12 * size):
                res.fail("C18.device_probe_points", f"Device.{tr['t']}: probe points {None if d2.probe_points is None else d2.probe_points.tolist()} but the polygons' map gives {wantp.tolist()}")
        c = dev.copy()
        if c != dev or c is dev or np.shares_memory(c.film.points, dev.film.points):
            res.fail("C18.device_copy", "Device.copy() is not an independent equal device")
    # the temporary translation (a context manager): inside the block the device is the shifted one, afterwards it is the
    # original again - for the stored shapes and for membership queries alike
    ctx = spec.get("context")
    if ctx and not res.violations:
        d3 = dev.copy()
        sh = np.array([ctx["dx"], ctx["dy"]]) * size / 5.0
        d3.contains_points(q)
        try:
            with d3.translation(float(sh[0]), float(sh[1])):
                in_block = d3.contains_points(q + sh)
                film_in = d3.film.points.copy()
            after = d3.contains_points(q)
        except Exception as exc:  # noqa: BLE001
            res.fail("C18.device_transform_raised", f"translation({sh.tolist()}): {type(exc).__name__}: {exc}")
            return res
        res.label("temporary translation")
        if np.any(far & (in_block != want)):
            j = int(np.argmax(far & (in_block != want)))
            res.fail("C18.device_translation_context", f"inside `with device.translation({sh.tolist()})`: point {(q[j] + sh).tolist()} (pre-image in device: {bool(want[j])}) is reported {bool(in_block[j])}")
        if not np.allclose(film_in, film + sh, rtol=0, atol=1e-9 * size):
            res.fail("C18.device_translation_context", "inside the block the film outline is not the translated one")
        if np.any(far & (after != want)):
            j = int(np.argmax(far & (after != want)))
            res.fail("C18.device_translation_context", f"after `with device.translation({sh.tolist()})`: Device.contains_points({q[j].tolist()}) = {bool(after[j])}, film and not holes = {bool(want[j])}")
        if not (np.allclose(d3.film.points, film, rtol=0, atol=1e-9 * size) and all(np.allclose(a.points, b, rtol=0, atol=1e-9 * size) for a, b in zip(d3.holes, holes))):
            res.fail("C18.device_translation_context", "after the block the stored outlines are not the original ones")
    res.nontrivial = reflected or len(holes) > 0
    return res
