"""C04 - observables are invariant under gauge transformations.

Operator level: arbitrary site functions chi, A' = A + (chi_j - chi_i) e/|e|^2 on every edge.
Whole-run level: uniform shift of the applied vector potential, initial state multiplied by the
gauge phase, every recorded step compared on observables.
"""
import numpy as np
from hypothesis import strategies as st

from .. import build, gen, meshgen, sim
from .. import oracles as orc
from ..engine import Result

PID = "C04"
TITLE = "Observables are invariant under gauge transformations"
LEVEL = "exploration"
TECHNIQUE = "metamorphic relation: operator covariance for generated gauge functions, and paired whole simulations in two gauges compared frame by frame on gauge-invariant observables"
RULE = (
    "operator case = generated mesh x generated link exponents A x generated real site function chi x generated complex psi "
    "(with and without pinned rows); run case = generated device (0..3 terminals, bias on/off, screening on/off, adaptive on/off) "
    "solved twice with A and A + const, psi_init rotated by the gauge phase; non-trivial = gauge phase winds by > 1 rad across "
    "the mesh and max|Js| > 1e-3; distinct by spec hash"
)
ASSUMPTIONS = [
    "mu is compared up to an additive constant and psi up to the gauge phase and one global phase (pure-Neumann Poisson problem)",
    "a non-zero pinned terminal value is not gauge covariant by definition and is excluded (terminal_psi in {0, None})",
    "time steps respect the explicit-scheme stability scale of the generated mesh (c <= 0.4), otherwise rounding noise is amplified differently in the two gauges",
]
LEVEL_TEXT = (
    "Operator covariance is an exact algebraic identity checked to 1e-10 on every edge/site of each generated mesh; the "
    "whole-run relation compares all recorded steps of paired simulations (tolerance 1e-7, observed 1e-11)."
)
LEVEL_NOTE = "Trusted: the harness's gauge map and observable comparison; numpy.  Tolerances 1e-10 (operators), 1e-7 (runs)."


def budget(tier):
    if tier == "quick":
        return dict(max_examples=450, workers=8, time_s=170, min_cases=120)
    return dict(max_examples=9000, workers=16, time_s=1200, min_cases=240)


@st.composite
def _op_case(draw, tier):
    return dict(kind="operators", mesh=draw(meshgen.mesh_spec(tier)), A=draw(meshgen.field_coefs(2)), ascale=draw(gen.rf(0.0, 3.0)),
                chi=draw(meshgen.field_coefs(1)), chiscale=draw(gen.rf(0.5, 6.0)), psi=draw(meshgen.field_coefs(2)),
                pin_seed=[draw(st.integers(0, 10 ** 6)) for _ in range(4)], pinned=draw(st.booleans()))


@st.composite
def _run_case(draw, tier):
    scr = draw(st.integers(0, 3)) == 0
    dev = draw(gen.device(terminals=(0, 3), holes=(0, 1), probes=(0, 2), film_kinds=("box", "ellipse"), size=(3.5, 5.5),
                          screening=scr, lshape=False, lu="um").filter(gen.valid_device))
    fu = draw(st.sampled_from(gen.FIELD_UNITS))
    cu = draw(st.sampled_from(gen.CURRENT_UNITS))
    fld = draw(gen.field(dev, fu, kinds=("gauge_param", "gauge_param", "ramp_gauge"), bmax=0.25 if scr else 0.5))
    lay = dev["layer"]
    sc = orc.si_scales(lay["xi"], lay["lam"], lay["d"], dev["lu"])
    # constant shift a0 (in field_units*length_units) such that the phase A_scale*a0*x winds by ~1..6 rad per xi-scale device
    a_unit = sc["Bc2"] * lay["xi"] / orc.FIELD[fu]
    # (occasionally much larger: a gauge origin far away from the device)
    big = draw(st.sampled_from([1.0, 1.0, 10.0, 40.0, 100.0]))
    if fld["kind"] == "ramp_gauge" and draw(st.integers(0, 2)) == 0:
        # a slow sweep: the potential changes by a very small fraction per step (tiny next to a large constant shift)
        fld = dict(fld, final=fld.get("initial", 0.0) + draw(st.sampled_from([1e-3, 1e-4, 2e-5])))
    shift = [float(f"{draw(gen.rf(-1.2, 1.2)) * a_unit * big:.4g}"), float(f"{draw(gen.rf(-1.2, 1.2)) * a_unit * big:.4g}")]
    adaptive = draw(st.booleans())
    return dict(kind="run", device=dev, field=fld, shift=shift,
                currents=draw(gen.currents(dev, cu, kinds=("dict", "callable"))),
                options=dict(dt_c=draw(gen.rf(0.05, 0.4)), dtmax_c=0.4, adaptive=adaptive, adaptive_window=draw(st.integers(1, 5)),
                             include_screening=scr, screening_tolerance=1e-4, field_units=fu, current_units=cu,
                             nsteps=draw(st.integers(5, 25 if tier == "quick" else 70)), save_every=draw(st.integers(1, 7)),
                             terminal_psi=draw(st.sampled_from([0.0, 0.0, None]))))


def strategy(tier):
    return st.one_of(_op_case(tier), _run_case(tier))


def check_case(spec):
    res = Result()
    if spec["kind"] == "operators":
        return _check_ops(spec, res)
    return _check_run(spec, res)


def _check_ops(spec, res):
    from tdgl.finite_volume import operators as ops
    from tdgl.finite_volume.operators import MeshOperators
    from tdgl.solver.options import SparseSolver

    mesh, info = meshgen.make_mesh(spec["mesh"])
    if mesh is None:
        res.label(f"discarded: {info}")
        return res
    em = mesh.edge_mesh
    n = len(mesh.sites)
    e0, e1 = em.edges[:, 0], em.edges[:, 1]
    # potential in units of 1/(mean edge length): the link phases A.e stay O(1..10) rad whatever the coordinate scale of the
    # mesh (with phases of 1e7 rad the rounding of the phase itself, 1e-16 x 1e7, would exceed the tolerance)
    A = np.stack([meshgen.make_field(spec["A"][0], em.centers), meshgen.make_field(spec["A"][1], em.centers)], axis=1) * spec["ascale"] / em.edge_lengths.mean()
    chi = meshgen.make_field(spec["chi"][0], mesh.sites) * spec["chiscale"]
    psi = (1 + 0.5 * meshgen.make_field(spec["psi"][0], mesh.sites)) * np.exp(1j * 2 * meshgen.make_field(spec["psi"][1], mesh.sites))
    # Documented convention: link variable U_ij = exp(-i A.e_ij) multiplying psi_j, covariant derivative
    # (grad - iA).  Under psi -> psi e^{i chi}, A -> A + grad chi, i.e. A'.e = A.e + (chi_j - chi_i):
    # U'_ij psi'_j = e^{i chi_i} U_ij psi_j.  The opposite sign is evaluated only for the diagnostic message.
    d = em.directions
    L2 = np.sum(d * d, axis=1)
    dchi = chi[e1] - chi[e0]
    g = np.exp(1j * chi)
    res.label("operator level", f"src={info['src']}")
    results = {}
    for sign in (+1, -1):
        A2 = A + sign * (dchi / L2)[:, None] * d
        ok = []
        G1 = ops.build_gradient(mesh, link_exponents=A)
        G2 = ops.build_gradient(mesh, link_exponents=A2)
        lhs = G2 @ (g * psi)
        rhs = g[e0] * (G1 @ psi)
        sc = np.abs(G1) @ np.abs(psi)
        ok.append(float(np.max(np.abs(lhs - rhs) / (sc + 1e-300))))
        L1, _ = ops.build_laplacian(mesh, link_exponents=A)
        Lb, _ = ops.build_laplacian(mesh, link_exponents=A2)
        lhs = Lb @ (g * psi)
        rhs = g * (L1 @ psi)
        sc = np.abs(L1) @ np.abs(psi)
        ok.append(float(np.max(np.abs(lhs - rhs) / (sc + 1e-300))))
        fixed = np.unique(np.array([s % n for s in spec["pin_seed"]], dtype=np.int64)) if spec["pinned"] else np.array([], dtype=np.int64)
        mo1 = MeshOperators(mesh, SparseSolver.SUPERLU, fixed_sites=fixed, fix_psi=True)
        mo1.set_link_exponents(A)
        mo2 = MeshOperators(mesh, SparseSolver.SUPERLU, fixed_sites=fixed, fix_psi=True)
        mo2.set_link_exponents(A2)
        j1 = mo1.get_supercurrent(psi)
        j2 = mo2.get_supercurrent(g * psi)
        # relative to the magnitude of the terms (|psi_i| sum_j |G_ej| |psi_j|): for a nearly uniform psi the current is a
        # small difference of large terms (edge weights ~ 1/length), so max|j| would be the wrong yardstick
        jscale = np.abs(psi)[e0] * (np.abs(mo1.psi_gradient) @ np.abs(psi))
        ok.append(float(np.max(np.abs(j1 - j2) / (jscale + 1e-300))))
        lhs = mo2.psi_laplacian @ (g * psi)
        rhs = g * (mo1.psi_laplacian @ psi)
        ok.append(float(np.max(np.abs(lhs - rhs) / ((np.abs(mo1.psi_laplacian) @ np.abs(psi)) + 1e-300))))
        results[sign] = ok
    best = +1
    worst = max(results[best])
    res.stat("operator_covariance", worst)
    names = ["gradient", "laplacian", "supercurrent", "pinned laplacian"]
    wind = float(np.ptp(chi))
    res.nontrivial = wind > 1.0 and n >= 20
    if wind > 1e-6 and worst > 1e-10:
        i = int(np.argmax(results[best]))
        res.fail("C04.operator_covariance", f"{names[i]} is not gauge covariant: residual {results[best][i]:.3e} "
                 f"(other sign convention: {max(results[-best]):.3e}); residuals {dict(zip(names, results[best]))}")
    if spec["pinned"]:
        res.label("pinned rows")
    return res


def _frames_of(dev, opts_spec, spec, fld, psi_phase, keep):
    import tdgl

    with sim.workdir():
        opts = build.make_options(opts_spec, dev, output_file="out.h5")
        solver = build.make_solver(dev, opts, applied_vector_potential=build.make_vector_potential(fld, dev, opts.field_units, opts.solve_time),
                                 terminal_currents=build.make_currents(spec["currents"]))
        if psi_phase is not None:
            solver.psi_init = solver.psi_init * np.exp(1j * psi_phase)
        keep["A_scale"] = solver.A_scale
        sol = solver.solve()
        frames, fixed = sim.read_frames(sol.path)
    return frames


def _check_run(spec, res):
    dev = build.make_device_or_refuse(spec["device"])
    xi = spec["device"]["layer"]["xi"]
    keep = {}
    fld_a = dict(spec["field"])
    fld_b = dict(spec["field"], ax=spec["shift"][0], ay=spec["shift"][1])
    res.label("run level", "screening" if spec["options"]["include_screening"] else "no screening",
              "adaptive" if spec["options"]["adaptive"] else "fixed dt", f"terminals={len(spec['device']['terminals'])}",
              "bias" if spec["currents"] else "no bias", f"terminal_psi={spec['options']['terminal_psi']}")
    try:
        fa = _frames_of(dev, spec["options"], spec, fld_a, None, keep)
        # gauge phase: A' = A + a0  =>  psi' = psi * exp(+/- i A_scale a0 . r): the sign is fixed by the
        # library's link convention U = exp(-i A.e): psi_j' U'_ij = e^{i chi_i} psi_j U_ij needs chi = +A_scale a0.r
        r = dev.mesh.sites * xi
        chi = keep["A_scale"] * (spec["shift"][0] * r[:, 0] + spec["shift"][1] * r[:, 1]) / xi
        fb = _frames_of(dev, spec["options"], spec, fld_b, chi, keep)
    except RuntimeError as exc:
        if "converge" in str(exc):
            res.label("documented non-convergence")
            return res
        raise
    if [int(f["attrs"]["step"]) for f in fa] != [int(f["attrs"]["step"]) for f in fb]:
        res.fail("C04.run_steps", f"different recorded steps in the two gauges: {[int(f['attrs']['step']) for f in fa]} vs {[int(f['attrs']['step']) for f in fb]}")
        return res
    maxj = 0.0
    for a, b in zip(fa, fb):
        cmp = orc.compare_frames(a, b, gauge_phase=chi)
        maxj = max(maxj, float(np.max(np.abs(a["supercurrent"]))))
        tdiff = abs(float(a["attrs"]["time"]) - float(b["attrs"]["time"]))
        cmp["time"] = tdiff / max(1e-300, abs(float(a["attrs"]["time"])) + 1e-12)
        cmp["induced"] = float(np.max(np.abs(a["induced_vector_potential"] - b["induced_vector_potential"])))
        for k, v in cmp.items():
            res.stat(f"run_{k}", v)
        bad = {k: v for k, v in cmp.items() if v > 1e-7}
        if bad:
            res.fail("C04.run_observables", f"step {int(a['attrs']['step'])}: observables differ between gauges: {bad}")
            break
    res.nontrivial = float(np.ptp(chi)) > 1.0 and maxj > 1e-3
    return res
