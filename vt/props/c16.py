"""C16 - parameter arithmetic means pointwise arithmetic of its operands.

Generated expression trees over {2-D / 3-D / time-dependent Parameters, ints, floats} and the
five operators are built with the library's operator overloads and compared with a reference
interpreter of the harness that evaluates the same tree on the leaves' plain functions.
"""
import copy
import operator
import pickle

import cloudpickle
import numpy as np
from hypothesis import strategies as st

from .. import build
from ..engine import Result

PID = "C16"
TITLE = "Parameter arithmetic means pointwise arithmetic of its operands"
LEVEL = "exploration"
TECHNIQUE = "grammar-generated expression trees evaluated against a reference interpreter; metamorphic structural-equality and pickle round-trip checks; solver acceptance differential"
RULE = (
    "expression trees of depth 1..3 (thorough: 4) over leaves {Parameter(x,y), Parameter(x,y,z) (vector valued), time-dependent "
    "Parameter, int, float} and operators + - * / ** in both operand orders, evaluated at a scalar point and at an array of "
    "points (and time), and at a run of 3..6 closely spaced times (dt 1e-3 .. one ulp at t up to 1e5) at the same points; non-trivial = depth >= 2 with a number operand or a time-dependent leaf; distinct by spec hash"
    "; rearranged arguments (other shapes, scalar/array arrangements with coinciding contents) without cache clearing; twin leaves with identical bytecode for the inequality clause"
)
ASSUMPTIONS = [
    "leaf functions are bounded and positive, divisors are positive sub-trees and non-integer powers have positive bases "
    "(the documented structural constraints), so no evaluation overflows or divides by zero",
    "one spatial arity per tree: 2-D trees are called as f(x, y[, t]), 3-D trees as f(x, y, z[, t])",
]
LEVEL_TEXT = (
    "Programs (expression trees) are drawn from a grammar and each is checked for value (vs. a reference interpreter), "
    "time-dependence flag, structural equality and inequality under single mutations, cache clearing, pickle/cloudpickle "
    "round trips and acceptance by TDGLSolver.  Exploration over a grammar, thousands of trees per run."
)
LEVEL_NOTE = "Trusted: Python's operator module and numpy arithmetic as the meaning of the operators; the harness's leaf functions."

OPS = {"+": operator.add, "-": operator.sub, "*": operator.mul, "/": operator.truediv, "**": operator.pow}


def budget(tier):
    if tier == "quick":
        return dict(max_examples=4000, workers=8, time_s=160, min_cases=800)
    return dict(max_examples=400000, workers=16, time_s=1200, min_cases=1600)


# ------------------------------------------------------------------ leaf functions (module level: picklable)


def g0(x, y, a=1.0):
    return a + 0.25 * np.sin(x) * np.cos(y)


def g1(x, y, a=1.0, b=0.5):
    return a * np.exp(-b * (x * x + y * y) / 10.0) + 0.5


def h0(x, y, *, t, w=1.0):
    return 1.25 + 0.5 * np.sin(w * t) * np.cos(x) * np.cos(y)


def h1(x, y, *, t, tau=1.0):
    return 0.5 + t * t / (t * t + tau) + 0.1 * np.cos(y) + 0.0 * x


def v0(x, y, z, a=1.0):
    return np.stack([a + 0.2 * np.sin(y), a + 0.2 * np.cos(x), 0.5 + 0.0 * z + 0.0 * x], axis=1)


def v1(x, y, z, b=1.0):
    return np.stack([1.0 + 0.1 * b * y * y / (1 + y * y), 1.0 + 0.1 * b * x * x / (1 + x * x),
                     1.0 + 0.05 * z * z / (1 + z * z) + 0.0 * x], axis=1)


def s0(x, y, z, *, t, tau=1.0):
    return 0.5 + t * t / (t * t + tau)


def s1(x, y, z, *, t, w=2.0):
    return 1.25 + 0.5 * np.sin(w * t)


def s2(x, y, z, *, t, w=1.0):
    f = 0.5 * np.sin(w * t)
    return np.stack([1.25 + f * np.cos(y), 1.25 + f * np.cos(z) + 0.0 * x, 1.0 + 0.0 * x], axis=1)


# twins: the same instruction stream and constants as g0 / h0 / v0 / s1, but other functions are called (different leaves
# with different values, which only differ in the *names* their code refers to)
def g0t(x, y, a=1.0):
    return a + 0.25 * np.cos(x) * np.sin(y)


def h0t(x, y, *, t, w=1.0):
    return 1.25 + 0.5 * np.cos(w * t) * np.sin(x) * np.sin(y)


def v0t(x, y, z, a=1.0):
    return np.stack([a + 0.2 * np.cos(y), a + 0.2 * np.sin(x), 0.5 + 0.0 * z + 0.0 * x], axis=1)


def s1t(x, y, z, *, t, w=2.0):
    return 1.25 + 0.5 * np.cos(w * t)


def _factory_leaf(arity, a):
    """A leaf function that captures ``a`` in a closure (the usual way to parametrise a callable in user code)."""
    if arity == "2d":
        def leaf(x, y):
            return a * (1.0 + 0.1 * np.cos(x) * np.cos(y))
    else:
        def leaf(x, y, z):
            return a * (1.0 + 0.1 * np.cos(x) * np.cos(y) + 0.0 * z)
    return leaf


TWINS = {"g0": "g0t", "g0t": "g0", "h0": "h0t", "h0t": "h0", "v0": "v0t", "v0t": "v0", "s1": "s1t", "s1t": "s1"}
FUNCS = {f.__name__: f for f in (g0, g1, h0, h1, v0, v1, s0, s1, s2, g0t, h0t, v0t, s1t)}
STATIC = {"2d": ["g0", "g1", "g0t"], "3d": ["v0", "v1", "v0t"]}
TIMED = {"2d": ["h0", "h1", "h0t"], "3d": ["s0", "s1", "s2", "s1t"]}
KWARGS = {"g0": {"a": [0.5, 1.0, 2.0]}, "g1": {"a": [0.5, 1.5], "b": [0.5, 2.0]}, "h0": {"w": [1.0, 3.0]},
          "h1": {"tau": [0.5, 1.0]}, "v0": {"a": [0.5, 1.0, 2.0]}, "v1": {"b": [1.0, 4.0]},
          "s0": {"tau": [0.5, 1.0]}, "s1": {"w": [2.0, 5.0]}, "s2": {"w": [1.0, 3.0]},
          "g0t": {"a": [0.5, 1.0, 2.0]}, "h0t": {"w": [1.0, 3.0]}, "v0t": {"a": [0.5, 1.0, 2.0]}, "s1t": {"w": [2.0, 5.0]}}
NUMBERS = [2, 3, -2, -1, 1, 0.5, 1.5, -0.25, 2.5, 10, 0.1]
EXPONENTS = [2, 3, -1, -2, 0.5, 1.5, 0, 1]


# ------------------------------------------------------------------ generator


@st.composite
def _leaf(draw, arity, timed_ok=True):
    timed = timed_ok and draw(st.integers(0, 3)) == 0
    name = draw(st.sampled_from((TIMED if timed else STATIC)[arity]))
    kw = {k: draw(st.sampled_from(v)) for k, v in KWARGS[name].items() if draw(st.booleans())}
    return dict(k="p", f=name, kw=kw)


@st.composite
def _tree(draw, arity, depth, positive=False, allow_pow=True):
    """Returns (tree, is_positive).  Every node has at least one Parameter operand."""
    if depth == 0 or draw(st.integers(0, 5)) == 0:
        return draw(_leaf(arity)), True
    ops = ["+", "*", "/"] + ([] if positive else ["-"]) + (["**"] if allow_pow else [])
    op = draw(st.sampled_from(ops))
    shape = draw(st.sampled_from(["pp", "pn", "np", "pp"]))
    if op == "**":
        # exponent: a number (any) or a single leaf; base positive when the exponent is not an integer
        if shape == "np":
            base = dict(k="num", v=draw(st.sampled_from([2, 3, 0.5, 1.5, 10])))
            ex, _ = draw(_tree(arity, min(depth - 1, 1), positive=True, allow_pow=False))
            return dict(op=op, l=base, r=ex), True
        base, bpos = draw(_tree(arity, depth - 1, positive=True, allow_pow=False))
        if shape == "pn" or draw(st.booleans()):
            e = dict(k="num", v=draw(st.sampled_from(EXPONENTS)))
        else:
            e = draw(_leaf(arity))
        return dict(op=op, l=base, r=e), True
    if shape == "pp":
        l, lp = draw(_tree(arity, depth - 1, positive=positive, allow_pow=allow_pow))
        r, rp = draw(_tree(arity, depth - 1, positive=(positive or op == "/"), allow_pow=allow_pow))
    elif shape == "pn":
        l, lp = draw(_tree(arity, depth - 1, positive=positive, allow_pow=allow_pow))
        pool = [n for n in NUMBERS if (n > 0 or not positive)]
        v = draw(st.sampled_from(pool))
        r, rp = dict(k="num", v=v), v > 0
    else:
        pool = [n for n in NUMBERS if (n > 0 or not positive)]
        v = draw(st.sampled_from(pool))
        l, lp = dict(k="num", v=v), v > 0
        r, rp = draw(_tree(arity, depth - 1, positive=(positive or op == "/"), allow_pow=allow_pow))
    pos = lp and rp and op != "-"
    return dict(op=op, l=l, r=r), pos


@st.composite
def _case(draw, maxdepth):
    arity = draw(st.sampled_from(["2d", "3d"]))
    depth = draw(st.integers(1, maxdepth))
    tree, _ = draw(_tree(arity, depth))
    if "op" not in tree:
        tree = dict(op=draw(st.sampled_from(["+", "*", "-", "/"])), l=tree, r=dict(k="num", v=draw(st.sampled_from([2, 0.5, 3]))))
        if draw(st.booleans()):
            tree["l"], tree["r"] = tree["r"], tree["l"]
    n = draw(st.integers(2, 6))
    pts = dict(
        x=[draw(st.floats(-3, 3)) for _ in range(n)], y=[draw(st.floats(-3, 3)) for _ in range(n)],
        z=[draw(st.floats(-1, 2)) for _ in range(n)], t=draw(st.sampled_from([0.0, 0.37, 2.0, 11.5, -1.0, 1.0])),
        t2=draw(st.sampled_from([0.1, 5.0, -2.0, 1])),
        # a run of closely spaced times at the same points, as a solver produces late in a long simulation (dt=0: adjacent floats)
        tseq=dict(t0=draw(st.sampled_from([0.0, 1.0, 250.0, 1000.0, 1e5, -3.0])), dt=draw(st.sampled_from([1e-3, 2e-4, 1e-6, 0.0])),
                  n=draw(st.integers(3, 6))),
    )
    return dict(arity=arity, tree=tree, points=pts, mutate=draw(st.integers(0, 10 ** 6)),
                solver=draw(st.integers(0, 3)) == 0)


def strategy(tier):
    return _case(3 if tier == "quick" else 4)


# ------------------------------------------------------------------ building and reference


def build_tree(node):
    """Build with the library's operator overloads, exactly as a user writes the expression."""
    import tdgl

    if "op" in node:
        return OPS[node["op"]](build_tree(node["l"]), build_tree(node["r"]))
    if node["k"] == "num":
        return node["v"]
    f = FUNCS[node["f"]]
    timed = node["f"] in TIMED["2d"] + TIMED["3d"]
    return tdgl.Parameter(f, time_dependent=timed, **node["kw"])


def ref_eval(node, x, y, z, t):
    """Reference interpreter: leaves' plain functions combined with operator.*"""
    if "op" in node:
        return OPS[node["op"]](ref_eval(node["l"], x, y, z, t), ref_eval(node["r"], x, y, z, t))
    if node["k"] == "num":
        return node["v"]
    f = FUNCS[node["f"]]
    kw = dict(node["kw"])
    if node["f"] in TIMED["2d"] + TIMED["3d"]:
        kw["t"] = t
    xx, yy = np.atleast_1d(x, y)
    if z is not None:
        kw["z"] = np.atleast_1d(z)
    out = np.asarray(f(xx, yy, **kw)).squeeze()
    return out.item() if out.ndim == 0 else out


def leaves(node, path=()):
    if "op" in node:
        yield from leaves(node["l"], path + ("l",))
        yield from leaves(node["r"], path + ("r",))
    else:
        yield path, node


def nodes(node, path=()):
    yield path, node
    if "op" in node:
        yield from nodes(node["l"], path + ("l",))
        yield from nodes(node["r"], path + ("r",))


def depth_of(node):
    return 0 if "op" not in node else 1 + max(depth_of(node["l"]), depth_of(node["r"]))


def is_timed(node):
    return any(n["k"] == "p" and n["f"] in TIMED["2d"] + TIMED["3d"] for _, n in leaves(node))


def mutate(tree, seed):
    """A single structural mutation: another operator, another constant, another kwarg or function."""
    t = copy.deepcopy(tree)
    allnodes = list(nodes(t))
    path, node = allnodes[seed % len(allnodes)]
    if "op" in node:
        others = [o for o in OPS if o != node["op"]]
        node["op"] = others[(seed // 7) % len(others)]
        return t, f"operator at {'/'.join(path) or 'root'}"
    if node["k"] == "num":
        node["v"] = node["v"] + 1
        return t, f"constant at {'/'.join(path)}"
    if node["kw"] and seed % 2:
        k = sorted(node["kw"])[0]
        node["kw"][k] = node["kw"][k] + 0.125
        return t, f"kwarg {k} at {'/'.join(path)}"
    if node["f"] in TWINS and (seed // 3) % 2 == 0:
        # the twin leaf: same bytecode and constants, same kwargs, other functions called
        node["f"] = TWINS[node["f"]]
        return t, f"leaf function (twin with identical bytecode) at {'/'.join(path)}"
    pool = [n for group in (STATIC, TIMED) for n in group["2d" if node["f"] in STATIC["2d"] + TIMED["2d"] else "3d"]]
    same_kind = [n for n in pool if n != node["f"] and ((n in TIMED["2d"] + TIMED["3d"]) == (node["f"] in TIMED["2d"] + TIMED["3d"]))]
    node["f"] = same_kind[0]
    node["kw"] = {}
    return t, f"leaf function at {'/'.join(path)}"


def params_in(obj):
    """All Parameter objects of a built tree (composites included)."""
    import tdgl
    from tdgl.parameter import CompositeParameter

    out = []
    if isinstance(obj, tdgl.Parameter):
        out.append(obj)
        if isinstance(obj, CompositeParameter):
            out += params_in(obj.left) + params_in(obj.right)
    return out


def _close(a, b):
    a, b = np.asarray(a), np.asarray(b)
    if a.shape != b.shape:
        return False, f"shape {a.shape} vs {b.shape}"
    ok = np.allclose(a, b, rtol=1e-12, atol=1e-14, equal_nan=True)
    return ok, "" if ok else f"max diff {np.max(np.abs(a - b)):.3e}"


_SOLVER_DEV = dict(
    lu="um", layer=dict(xi=0.5, lam=2.0, d=0.1, gamma=10.0, u=5.79, z0=0.0),
    film=dict(kind="box", w=2.5, h=2.0, points=28, center=[0.0, 0.0]), holes=[], terminals=[],
    mesh=dict(max_edge_length=0.5, min_points=None, smooth=0),
)


def check_case(spec):
    import tdgl
    from tdgl.parameter import CompositeParameter

    res = Result()
    tree, arity, P = spec["tree"], spec["arity"], spec["points"]
    timed = is_timed(tree)
    d = depth_of(tree)
    has_num = any(n["k"] == "num" for _, n in leaves(tree))
    res.label(f"depth={d}", arity, "time-dependent" if timed else "static")
    if has_num:
        res.label("number operand")
    for op in OPS:
        if any("op" in n and n["op"] == op for _, n in nodes(tree)):
            res.label(f"op {op}")
    res.nontrivial = d >= 2 and (has_num or timed)

    # ---- construction
    try:
        comp = build_tree(tree)
    except Exception as exc:  # noqa: BLE001
        res.fail("C16.construction", f"building the expression raised {type(exc).__name__}: {exc}")
        return res
    if not isinstance(comp, CompositeParameter):
        res.fail("C16.construction", f"expression evaluates to {type(comp).__name__}, not a CompositeParameter")
        return res

    # ---- time-dependence flag
    try:
        flag = comp.time_dependent
    except Exception as exc:  # noqa: BLE001
        res.fail("C16.flag", f"time_dependent raised {type(exc).__name__}: {exc}")
        flag = timed
    if bool(flag) != timed:
        res.fail("C16.flag", f"time_dependent={flag} but {'a' if timed else 'no'} leaf is time-dependent")

    # ---- values: scalar point and array of points, two times
    x, y, z = np.array(P["x"]), np.array(P["y"]), np.array(P["z"])

    def calls():
        for t in ((P["t"], P["t2"]) if timed else (None,)):
            kw = {} if t is None else dict(t=t)
            zz = (None,) if arity == "2d" else (z, float(z[0]))
            for zarg in zz:
                yield "array", (x, y) + (() if zarg is None else (zarg,)), kw, t, (None if zarg is None else (zarg if np.ndim(zarg) else zarg * np.ones_like(x)))
            # same x, other y (and other z): a cache keyed on too little would return stale values
            yield "array-y", (x, y + 1.0) + (() if arity == "2d" else (z,)), kw, t, (None if arity == "2d" else z)
            if arity == "3d":
                yield "array-z", (x, y, z + 0.5), kw, t, z + 0.5
            yield "scalar", (float(x[0]), float(y[0])) + (() if arity == "2d" else (float(z[0]),)), kw, t, (None if arity == "2d" else float(z[0]))

    def value_check(obj, what):
        for kind, args, kw, t, zref in calls():
            try:
                got = obj(*args, **kw)
            except Exception as exc:  # noqa: BLE001
                res.fail(f"C16.{what}_call", f"{kind} call raised {type(exc).__name__}: {exc}")
                return
            want = ref_eval(tree, args[0], args[1], zref, t)
            ok, why = _close(got, want)
            if not ok:
                res.fail(f"C16.{what}_value", f"{kind} evaluation differs from pointwise arithmetic of the operands: {why}")
                return

    value_check(comp, "composite")
    # evaluate again (time-dependent leaves are cached inside composites): same answer
    value_check(comp, "repeat")
    # ... and at a run of closely spaced times at the same points (no cache clearing in between, as in a simulation)
    if timed and P.get("tseq"):
        ts = P["tseq"]
        seq = [float(ts["t0"])]
        for _ in range(int(ts["n"]) - 1):
            seq.append(seq[-1] + ts["dt"] if ts["dt"] else float(np.nextafter(seq[-1], np.inf)))
        res.label("closely spaced times")
        args = (x, y) + (() if arity == "2d" else (z,))
        for t in seq:
            try:
                got = comp(*args, t=t)
            except Exception as exc:  # noqa: BLE001
                res.fail("C16.sequence_call", f"evaluation at t={t!r} raised {type(exc).__name__}: {exc}")
                break
            ok, why = _close(got, ref_eval(tree, x, y, None if arity == "2d" else z, t))
            if not ok:
                res.fail("C16.sequence_value", f"evaluation at t={t!r} (one of the closely spaced times {seq[0]!r}..{seq[-1]!r}) differs from pointwise "
                         f"arithmetic of the operands: {why}")
                break

    # ---- the same numbers presented in another arrangement (no cache clearing in between): other array shape, and
    # scalar / array arguments whose concatenated contents coincide - the value belongs to the arguments as given
    if len(x) >= 2:
        res.label("rearranged arguments")
        for t in ((P["t"],) if timed else (None,)):
            kw = {} if t is None else dict(t=t)
            zs = () if arity == "2d" else (z,)
            variants = [("flat", (x, y) + zs), ("column", tuple(a.reshape(-1, 1) for a in (x, y) + zs))]
            if len(x) % 2 == 0 and len(x) >= 4:
                variants.append(("two rows", tuple(a.reshape(2, -1) for a in (x, y) + zs)))
            zsc = () if arity == "2d" else (float(z[0]),)
            variants.append(("scalar x, array y", (float(x[0]), np.array([y[0], y[1]])) + zsc))
            variants.append(("array x, scalar y", (np.array([x[0], y[0]]), float(y[1])) + zsc))
            for name, args in variants:
                try:
                    want = ref_eval(tree, args[0], args[1], None if arity == "2d" else args[2], t)
                except Exception:  # noqa: BLE001
                    continue  # the plain functions themselves do not accept this arrangement
                try:
                    got = comp(*args, **kw)
                except Exception as exc:  # noqa: BLE001
                    res.fail("C16.rearranged_call", f"evaluation with {name} arguments raised {type(exc).__name__}: {exc}")
                    break
                ok, why = _close(got, want)
                if not ok:
                    res.fail("C16.rearranged_value", f"evaluation with {name} arguments (after the same numbers in another arrangement) differs from "
                             f"pointwise arithmetic of the operands: {why}")
                    break

    # ---- structural equality
    try:
        twin = build_tree(tree)
        if not (comp == twin):
            res.fail("C16.equality", "two composites built from the same expression compare unequal")
        mt, what = mutate(tree, spec["mutate"])
        other = build_tree(mt)
        if comp == other:
            res.fail("C16.inequality", f"composite compares equal to a tree with a different {what}")
    except Exception as exc:  # noqa: BLE001
        res.fail("C16.equality", f"comparison raised {type(exc).__name__}: {exc}")
    # leaves made by a factory: the same code object, different captured constants - different leaves with different values
    try:
        a0 = 0.5 + (spec["mutate"] % 7) * 0.25
        a1 = a0 + 1.0 + (spec["mutate"] % 3)
        p_a, p_a2, p_b = tdgl.Parameter(_factory_leaf(arity, a0)), tdgl.Parameter(_factory_leaf(arity, a0)), tdgl.Parameter(_factory_leaf(arity, a1))
        args = (1.0, 2.0) + (() if arity == "2d" else (0.5,))
        if not (p_a == p_a2) or not ((p_a * 2) == (p_a2 * 2)):
            res.fail("C16.equality", "two leaves made by the same factory call with the same captured constant compare unequal")
        if (p_a == p_b) or ((p_a + 1) == (p_b + 1)) or ((2 / (p_a * comp)) == (2 / (p_b * comp))):
            res.fail("C16.inequality", f"leaves made by one factory with different captured constants ({a0}, {a1}) compare equal (alone or inside a composite) "
                     f"although their values differ: {p_a(*args)!r} vs {p_b(*args)!r}")
    except Exception as exc:  # noqa: BLE001
        res.fail("C16.equality", f"comparison of factory-made leaves raised {type(exc).__name__}: {exc}")

    # ---- cache clearing
    try:
        comp._clear_cache()
        for p in params_in(comp):
            if len(p._cache):
                res.fail("C16.clear_cache", "a cache in the tree is not empty after _clear_cache()")
                break
    except Exception as exc:  # noqa: BLE001
        res.fail("C16.clear_cache", f"_clear_cache() raised {type(exc).__name__}: {exc}")

    # ---- pickle round trips
    for name, dumps, loads in (("pickle", pickle.dumps, pickle.loads), ("cloudpickle", cloudpickle.dumps, cloudpickle.loads)):
        try:
            back = loads(dumps(comp))
        except Exception as exc:  # noqa: BLE001
            res.fail(f"C16.{name}", f"round trip raised {type(exc).__name__}: {exc}")
            continue
        try:
            if bool(back.time_dependent) != timed:
                res.fail(f"C16.{name}", f"time_dependent={back.time_dependent} after the round trip")
            if not (back == comp):
                res.fail(f"C16.{name}", "reloaded composite compares unequal to the original")
            value_check(back, name)
            back._clear_cache()
        except Exception as exc:  # noqa: BLE001
            res.fail(f"C16.{name}", f"reloaded composite is unusable: {type(exc).__name__}: {exc}")

    # ---- handed to the solver like a plain Parameter
    if arity == "3d" and spec.get("solver"):
        res.label("solver acceptance")
        dev = build.make_device(_SOLVER_DEV)

        def plain(x, y, z, *, t=0.0):
            return ref_eval(tree, x, y, z, t)

        def plain_static(x, y, z):
            return ref_eval(tree, x, y, z, None)

        ref_param = tdgl.Parameter(plain, time_dependent=True) if timed else tdgl.Parameter(plain_static)
        outs = {}
        for name, A in (("plain", ref_param), ("composite", comp)):
            opts = tdgl.SolverOptions(solve_time=0.02, dt_init=0.01, adaptive=False, save_every=1,
                                      field_units="mT", current_units="uA")
            try:
                solver = build.make_solver(dev, opts, applied_vector_potential=A)
                sol = solver.solve()
                outs[name] = (np.array(solver.current_A_applied), np.array(sol.tdgl_data.psi), solver.dynamic_vector_potential)
            except Exception as exc:  # noqa: BLE001
                outs[name] = exc
        if isinstance(outs["plain"], Exception):
            res.label("plain parameter rejected too")
            if not isinstance(outs["composite"], Exception):
                res.fail("C16.solver", "composite accepted although the equivalent plain Parameter is rejected")
        elif isinstance(outs["composite"], Exception):
            e = outs["composite"]
            res.fail("C16.solver", f"composite rejected by the solver ({type(e).__name__}: {e}) although the equivalent plain Parameter is accepted")
        else:
            a, b = outs["plain"], outs["composite"]
            if b[2] != timed:
                res.fail("C16.solver", f"solver treats the composite as {'dynamic' if b[2] else 'static'}")
            if not np.allclose(a[0], b[0], rtol=1e-12, atol=1e-14) or not np.allclose(a[1], b[1], rtol=1e-10, atol=1e-12):
                res.fail("C16.solver", "simulation with the composite differs from the one with the equivalent plain Parameter")
    return res
