"""C08 - results do not depend on the unit system used to state the problem; flux per triangle."""
import copy
from fractions import Fraction

import numpy as np
from hypothesis import strategies as st

from .. import build, gen, sim
from .. import oracles as orc
from ..engine import Result

PID = "C08"
TITLE = "Results do not depend on the unit system used to state the problem"
LEVEL = "exploration"
TECHNIQUE = "metamorphic relation between paired simulations of one physical problem stated in two unit systems (explicit conversion table in the harness), plus an absolute flux-quantum identity per mesh triangle from SI constants"
RULE = (
    "case = generated device/drive/options stated in unit system A drawn from {um,nm,mm}x{mT,uT,T}x{uA,nA,mA}, converted by the harness to "
    "a second drawn system B (same dimensionless mesh shared), both solved (the second optionally reusing the first SolverOptions object with its unit fields changed in place) and compared frame by frame, together with field_at_position / vector_potential_at_position in SI units read from both finished solutions; non-trivial = all three units differ "
    "and both field and current are non-zero; distinct by spec hash"
)
ASSUMPTIONS = [
    "the dimensionless mesh is built once and attached to both devices through the public mesh attribute (re-meshing scaled coordinates with Triangle is not bit-stable and not what the property is about)",
    "mu compared up to an additive constant, psi up to a global phase (pure-Neumann Poisson problem); tolerance 1e-7 (observed 1e-11)",
    "Phi_0 and mu_0 from scipy.constants",
    "a non-zero pinned terminal value is excluded: it fixes the phase of psi on the terminals while mu is only defined up to the additive "
    "constant that the singular LU solve picks up from rounding, so the bulk phase relative to the terminals is not determined by the problem "
    "(observed: 1e-5 differences between unit systems after 4 steps with terminal_psi=0.3+0.4j, none with 0 or None)",
]
LEVEL_TEXT = "Every recorded frame of each generated pair is compared on all observables and on the physical current density; every mesh triangle is an instance of the flux identity."
LEVEL_NOTE = "Trusted: the harness's unit table and SI constants; the shared mesh."

KEYS_LEN = ("w", "h", "a", "b", "r")
KEYS_PT = ("center", "shift", "rot_origin", "post_origin")


def budget(tier):
    if tier == "quick":
        return dict(max_examples=220, workers=8, time_s=170, min_cases=60)
    return dict(max_examples=8000, workers=16, time_s=1200, min_cases=120)


def scale_shape(shape, s):
    out = copy.deepcopy(shape)
    for k in KEYS_LEN:
        if k in out:
            out[k] = out[k] * s
    for k in KEYS_PT:
        if k in out and not isinstance(out[k], str):
            out[k] = [v * s for v in out[k]]
    if "xy" in out:
        out["xy"] = [[v * s for v in p] for p in out["xy"]]
    if "parts" in out:
        out["parts"] = [scale_shape(p, s) for p in out["parts"]]
    return out


def convert_device(d, lu_b):
    s = orc.LENGTH[d["lu"]] / orc.LENGTH[lu_b]
    out = copy.deepcopy(d)
    out["lu"] = lu_b
    for k in ("xi", "lam", "d", "z0"):
        out["layer"][k] = d["layer"][k] * s
    out["film"] = scale_shape(d["film"], s)
    out["holes"] = [scale_shape(h, s) for h in d["holes"]]
    out["terminals"] = [dict(name=t["name"], width=t["width"] * s, shape=scale_shape(t["shape"], s)) for t in d["terminals"]]
    if d.get("probes"):
        out["probes"] = [[v * s for v in p] for p in d["probes"]]
    out["mesh"] = dict(d["mesh"], max_edge_length=d["mesh"]["max_edge_length"] * s)
    return out, s


@st.composite
def _case(draw, tier):
    scr = draw(st.integers(0, 3)) == 0
    ua = [draw(st.sampled_from(gen.LENGTH_UNITS)), draw(st.sampled_from(gen.FIELD_UNITS)), draw(st.sampled_from(gen.CURRENT_UNITS))]
    if draw(st.integers(0, 2)) > 0:
        ub = [draw(st.sampled_from([u for u in gen.LENGTH_UNITS if u != ua[0]])), draw(st.sampled_from([u for u in gen.FIELD_UNITS if u != ua[1]])),
              draw(st.sampled_from([u for u in gen.CURRENT_UNITS if u != ua[2]]))]
    else:
        ub = [draw(st.sampled_from(gen.LENGTH_UNITS)), draw(st.sampled_from(gen.FIELD_UNITS)), draw(st.sampled_from(gen.CURRENT_UNITS))]
    dev = draw(gen.device(terminals=(0, 3), holes=(0, 1), probes=(0, 2), film_kinds=("box", "ellipse", "union"), size=(3.5, 5.5),
                          screening=scr, lu=ua[0]).filter(gen.valid_device))
    fld = draw(gen.field(dev, ua[1], kinds=("constant", "float", "gauge_param", "ramp", "zero"), bmax=0.25 if scr else 0.5))
    cur = draw(gen.currents(dev, ua[2], kinds=("dict", "callable")))
    eps = draw(st.sampled_from([None, None, dict(kind="float", value=0.7), "disc"]))
    if eps == "disc":
        xi = dev["layer"]["xi"]
        c = dev["film"].get("center") or dev["film"]["parts"][0]["center"]
        eps = dict(kind="callable", x0=c[0] + 0.3 * xi, y0=c[1] - 0.2 * xi, radius=1.2 * xi, lo=draw(gen.rf(-0.5, 0.5)))
    # the second statement of the problem may reuse the first one's SolverOptions object with its unit fields changed in place
    return dict(device=dev, units_a=ua, units_b=ub, field=fld, currents=cur, epsilon=eps, reuse_options=draw(st.booleans()),
                options=dict(dt_c=draw(gen.rf(0.05, 0.4)), dtmax_c=0.45, adaptive=draw(st.booleans()), adaptive_window=draw(st.integers(1, 5)),
                             include_screening=scr, screening_tolerance=1e-4,
                             nsteps=draw(st.integers(5, 20 if tier == "quick" else 60)), save_every=draw(st.integers(1, 6)),
                             terminal_psi=draw(st.sampled_from([0.0, 0.0, None]))))


def strategy(tier):
    return _case(tier)


def _solve(dev, spec, units, fld, cur, eps, opts=None, name="out.h5"):
    """Solve in the current work directory; with ``opts`` given, that SolverOptions object is reused, its unit fields changed in place."""
    import os

    if opts is None:
        opts = build.make_options(dict(spec["options"], field_units=units[1], current_units=units[2]), dev, output_file=os.path.abspath(name))
    else:
        opts.field_units, opts.current_units, opts.output_file = units[1], units[2], os.path.abspath(name)
    solver = build.make_solver(dev, opts, applied_vector_potential=build.make_vector_potential(fld, dev, units[1], opts.solve_time),
                               terminal_currents=build.make_currents(cur, opts.solve_time), disorder_epsilon=build.make_epsilon(eps))
    return solver.solve(), opts


def _measure(sol, pos, z):
    """What is read from a finished solution: frames, physical sheet current per frame, and (last frame) the field and the
    vector potential at positions given in the solution's own length units, in SI units."""
    frames, fixed = sim.read_frames(sol.path)
    K = []
    for j in range(len(frames)):
        sol.solve_step = j
        K.append(np.array(sol.current_density.to("uA / um").magnitude))
    Bz = np.asarray(sol.field_at_position(pos, zs=z, units="T", with_units=False), dtype=float)
    Av = np.asarray(sol.vector_potential_at_position(pos, zs=z, units="T * m", with_units=False), dtype=float)
    return frames, fixed, K, Bz, Av


def check_case(spec):
    res = Result()
    ua, ub = spec["units_a"], spec["units_b"]
    da = spec["device"]
    dev_a = build.make_device_or_refuse(da)
    db, s = convert_device(da, ub[0])
    dev_b = build.make_device(db, cache=False, with_mesh=False)
    dev_b.mesh = dev_a.mesh
    # a boundary site lying exactly on a terminal polygon's outline can fall on either side after the coordinates are rescaled
    # (1e6 between nm and mm): then the two statements are not the same device at rounding level - not a case of this property
    ta_ = {t.name: (tuple(map(int, t.site_indices)), tuple(map(int, t.boundary_edge_indices))) for t in dev_a.terminal_info()}
    tb_ = {t.name: (tuple(map(int, t.site_indices)), tuple(map(int, t.boundary_edge_indices))) for t in dev_b.terminal_info()}
    if ta_ != tb_:
        res.label("discarded: ambiguous terminal membership (a boundary site on a terminal outline)")
        return res
    # drives in system B
    fa = spec["field"]
    fb = dict(fa)
    if "B" in fa:
        fb["B"] = fa["B"] * orc.FIELD[ua[1]] / orc.FIELD[ub[1]]
    for k in ("x0", "y0"):
        if k in fa:
            fb[k] = fa[k] * s
    for k in ("ax", "ay"):
        if k in fa:
            fb[k] = fa[k] * s * orc.FIELD[ua[1]] / orc.FIELD[ub[1]]
    ca = spec["currents"]
    cb = None
    if ca is not None:
        ratio = Fraction(orc.CURRENT[ua[2]]).limit_denominator(10 ** 12) / Fraction(orc.CURRENT[ub[2]]).limit_denominator(10 ** 12)
        q = Fraction(ca["quantum"]) * ratio
        cb = dict(ca, quantum=f"{q.numerator}/{q.denominator}")
    ea = spec["epsilon"]
    eb = None if ea is None else (dict(ea, x0=ea["x0"] * s, y0=ea["y0"] * s, radius=ea["radius"] * s) if ea["kind"] == "callable" else ea)
    ndiff = sum(a != b for a, b in zip(ua, ub))
    has_field = fa["kind"] != "zero"
    res.label(f"units differ in {ndiff}", "screening" if spec["options"]["include_screening"] else "no screening",
              "field" if has_field else "no field", "current" if ca else "no current", f"{ua[0]}->{ub[0]}")
    res.nontrivial = ndiff == 3 and has_field and ca is not None
    # ---- absolute anchor: the public physical scales equal their SI definitions in both unit systems
    for dev_, dspec_ in ((dev_a, da), (dev_b, db)):
        l_ = dspec_["layer"]
        si = orc.si_scales(l_["xi"], l_["lam"], l_["d"], dspec_["lu"])
        got = dict(Bc2=dev_.Bc2.to("T").magnitude, A0=dev_.A0.to("T * m").magnitude, K0=dev_.K0.to("A / m").magnitude)
        # time and voltage scales for a conductivity stated once in SI (2.5e6 S/m) and handed over in the device's length units,
        # as a layer attribute or as the documented argument
        import tdgl
        sigma_si = 2.5e6
        L_ = orc.LENGTH[dspec_["lu"]]
        lam_m, d_m = l_["lam"] * L_, l_["d"] * L_
        si["tau0"] = orc.MU0 * sigma_si * lam_m ** 2
        si["V0"] = si["xi_m"] * si["K0"] / d_m / sigma_si
        si["kappa"] = l_["lam"] / l_["xi"]
        si["Lambda_m"] = lam_m ** 2 / d_m
        sig = sigma_si * L_ * tdgl.ureg(f"siemens / {dspec_['lu']}")
        got["tau0"] = dev_.tau0(conductivity=sig).to("s").magnitude
        got["V0"] = dev_.V0(conductivity=sig).to("V").magnitude
        got["kappa"] = float(dev_.kappa)
        got["Lambda_m"] = dev_.Lambda.to("m").magnitude
        dev_c = dev_.copy()
        dev_c.layer.conductivity = sigma_si * L_
        for k in got:
            if abs(got[k] - si[k]) > 1e-9 * abs(si[k]):
                res.fail("C08.physical_scales", f"Device.{k} = {got[k]:.9g} SI in units {dspec_['lu']}, definition from Phi_0, mu_0 gives {si[k]:.9g}")
        for k, unit in (("tau0", "s"), ("V0", "V")):
            v = getattr(dev_c, k)().to(unit).magnitude
            if abs(v - si[k]) > 1e-9 * abs(si[k]):
                res.fail("C08.physical_scales", f"Device.{k}() with layer conductivity = {v:.9g} SI in units {dspec_['lu']}, definition gives {si[k]:.9g}")
    if res.violations:
        return res
    # evaluation points above the film, given in each system's own length units
    fpts = build.make_polygon(da["film"], "film").points
    lo, hi = fpts.min(axis=0), fpts.max(axis=0)
    gx, gy = np.meshgrid(np.linspace(lo[0], hi[0], 4), np.linspace(lo[1], hi[1], 3), indexing="ij")
    pos_a = np.stack([gx.ravel(), gy.ravel()], axis=1)
    z_a = float(da["layer"].get("z0", 0.0)) + 1.5 * float(da["layer"]["xi"])
    reuse = bool(spec.get("reuse_options"))
    if reuse:
        res.label("second run reuses the SolverOptions object (units changed in place)")
    try:
        with sim.workdir():
            sol_a, opts_a = _solve(dev_a, spec, ua, fa, ca, ea, name="a.h5")
            sol_b, _ = _solve(dev_b, spec, ub, fb, cb, eb, opts=opts_a if reuse else None, name="b.h5")
            # both finished solutions are read only now
            fr_a, fx_a, K_a, Bz_a, Av_a = _measure(sol_a, pos_a, z_a)
            fr_b, fx_b, K_b, Bz_b, Av_b = _measure(sol_b, pos_a * s, z_a * s)
    except RuntimeError as exc:
        if "converge" in str(exc):
            res.label("documented non-convergence")
            return res
        raise
    except ValueError as exc:
        if "does not contain any points" in str(exc):
            res.label("discarded: terminal without boundary sites")
            return res
        raise
    la = da["layer"]
    k0_ua_um = orc.si_scales(la["xi"], la["lam"], la["d"], da["lu"])["K0"]  # A/m == uA/um
    if [int(f["attrs"]["step"]) for f in fr_a] != [int(f["attrs"]["step"]) for f in fr_b]:
        res.fail("C08.steps", "different recorded steps in the two unit systems")
        return res
    for a, b, ka, kb in zip(fr_a, fr_b, K_a, K_b):
        cmp = orc.compare_frames(a, b)
        ta, tb = float(a["attrs"]["time"]), float(b["attrs"]["time"])
        cmp["time"] = abs(ta - tb) / max(abs(ta), 1e-12)
        cmp["induced"] = float(np.max(np.abs(a["induced_vector_potential"] - b["induced_vector_potential"])))
        # physical sheet current in uA/um, relative to its own maximum plus a small fraction of the scale K0
        # (an undriven run, or one whose drive has been switched off, carries only rounding-level currents whose relative
        #  difference is meaningless: the dimensionless currents agree to ~1e-12 of the scale K0, so the floor is 1e-3 K0;
        #  1e-6 K0 was too small - found by the thorough tier)
        cmp["K_uA_per_um"] = float(np.max(np.abs(ka - kb))) / (float(np.max(np.abs(ka))) + 1e-3 * k0_ua_um)
        for k, v in cmp.items():
            res.stat(k, v)
        bad = {k: v for k, v in cmp.items() if v > 1e-7}
        if bad:
            res.fail("C08.unit_dependence", f"step {int(a['attrs']['step'])}: results differ between {ua} and {ub}: {bad}")
            break
    # ---- physical outputs computed from the solutions (SI): field and vector potential above the film
    if not res.violations:
        # natural scales of the outputs: the field mu_0 K0 of a sheet current K0, and that field times xi; values far below
        # them come from rounding-level currents and are compared relative to a floor of 1e-3 of the scale
        b_scale = orc.MU0 * k0_ua_um
        a_scale = b_scale * la["xi"] * orc.LENGTH[da["lu"]]
        for name, xa, xb, floor in (("field_at_position [T]", Bz_a, Bz_b, 1e-3 * b_scale), ("vector_potential_at_position [T m]", Av_a, Av_b, 1e-3 * a_scale)):
            scale = float(np.max(np.abs(xa))) + floor
            err = float(np.max(np.abs(xa - xb))) / scale
            res.stat("physical_output", err)
            if err > 1e-6:
                res.fail("C08.physical_outputs", f"{name} of the last frame differs between {ua} and {ub} by {err:.3e} relative (max |value| {scale:.3e})")
    # ---- absolute identity: gauge phase around every triangle = 2 pi * flux / Phi_0
    if fa["kind"] in ("constant", "float", "gauge_param"):
        for fixed, dspec, units, f_ in ((fx_a, da, ua, fa), (fx_b, db, ub, fb)):
            A = fixed.get("applied_vector_potential")
            if A is None:
                continue
            mesh = dev_a.mesh
            em = mesh.edge_mesh
            eidx = {(min(i, j), max(i, j)): k for k, (i, j) in enumerate(em.edges)}
            T = mesh.elements
            tri = mesh.sites[T]
            area = 0.5 * ((tri[:, 1, 0] - tri[:, 0, 0]) * (tri[:, 2, 1] - tri[:, 0, 1]) - (tri[:, 2, 0] - tri[:, 0, 0]) * (tri[:, 1, 1] - tri[:, 0, 1]))
            phase = np.zeros(len(T))
            for u, v in ((0, 1), (1, 2), (2, 0)):
                i, j = T[:, u], T[:, v]
                k = np.array([eidx[(min(a_, b_), max(a_, b_))] for a_, b_ in zip(i, j)])
                phase += np.einsum("ij,ij->i", A[k], mesh.sites[j] - mesh.sites[i])
            xi_m = dspec["layer"]["xi"] * orc.LENGTH[dspec["lu"]]
            B_si = f_["B"] * orc.FIELD[units[1]]
            want = 2 * np.pi * B_si * area * xi_m**2 / orc.PHI0
            err = float(np.max(np.abs(phase - want)) / max(np.max(np.abs(want)), 1e-300))
            res.stat("flux_per_triangle", err)
            if err > 1e-10:
                k = int(np.argmax(np.abs(phase - want)))
                res.fail("C08.flux_quantum", f"units {units}: phase around triangle {k} is {phase[k]:.12g}, 2 pi flux/Phi_0 = {want[k]:.12g}")
                break
    return res
