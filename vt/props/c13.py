"""C13 - screening returns a self-consistent induced vector potential or fails."""
import numpy as np
from hypothesis import strategies as st

from .. import build, gen, sim
from .. import oracles as orc
from ..engine import Result

PID = "C13"
TITLE = "Screening returns a self-consistent induced vector potential or fails"
LEVEL = "exploration"
TECHNIQUE = "differential oracle (numba kernel vs numpy double sum on generated point sets) and invariant checks over every screening iteration of generated simulations, recorded by wrapping the documented get_induced_vector_potential; SI-unit recomputation of the Coulomb-kernel sum"
RULE = (
    "kernel case = generated currents (both signs), positive areas, distinct site and edge point sets (5..80 points); run case = generated device in "
    "the weak-to-moderate screening regime x field (static/ramped) x tolerance in [1e-4,1e-2] x Polyak step size/drag x optional small iteration cap x optional start from the saved state of an earlier (screened or unscreened, driven) run with the drive then kept or removed, "
    "every iteration of every step checked; non-trivial = a step with >= 2 screening iterations and max|A_induced| > 1e-6 (or a kernel case with "
    ">= 10 sites); distinct by spec hash"
    "; seeds of unscreened runs may be screened; optional earlier sweep run with another layer on a copy() of the device (shared mesh)"
)
ASSUMPTIONS = [
    "the site current is the documented edge-to-site average, re-implemented by the harness",
    "mu_0, Phi_0 from scipy.constants: A_induced/A0 = (mu_0/4pi) sum_j K0 J_j a_j xi^2 / |r - r_j| / A0",
    "non-convergence (RuntimeError) is a permitted outcome; then nothing may be recorded for the failing step",
    "fastmath re-association in the kernel: tolerance 1e-12 relative to the sum of |terms|",
]
LEVEL_TEXT = "Every screening iteration of every step of each generated run is an instance (reported error, stopping rule, stored self-consistency); kernel equivalence on generated point sets."
LEVEL_NOTE = "Trusted: numpy double sums, SI constants, the harness's edge-to-site average and Polyak update formulas written from the documentation."


def budget(tier):
    if tier == "quick":
        return dict(max_examples=450, workers=8, time_s=170, min_cases=120)
    return dict(max_examples=15000, workers=16, time_s=1200, min_cases=240)


@st.composite
def _kernel_case(draw, tier):
    nx = draw(st.integers(2, 8))
    ny = draw(st.integers(2, 8 if tier == "quick" else 10))
    n = nx * ny
    m = draw(st.integers(3, 80))
    h = draw(gen.logu(-3, 2))
    return dict(kind="kernel", nx=nx, ny=ny, h=h,
                offs=[[draw(st.floats(0.05, 0.45)), draw(st.floats(0.05, 0.45))] for _ in range(n)],
                J=[[draw(st.floats(-5, 5)), draw(st.floats(-5, 5))] for _ in range(n)],
                areas=[draw(st.floats(1e-3, 3.0)) for _ in range(n)],
                edge=[[draw(st.integers(0, nx - 1)), draw(st.integers(0, ny - 1)), draw(st.floats(0.55, 0.95)), draw(st.floats(0.55, 0.95))] for _ in range(m)])


@st.composite
def _run_case(draw, tier):
    scr = draw(st.integers(0, 7)) > 0
    dev = draw(gen.device(terminals=(0, 2), holes=(0, 1), probes=(0,), film_kinds=("box", "ellipse"), size=(3.5, 5.0 if tier == "quick" else 7.0),
                          screening=True, lshape=False).filter(gen.valid_device))
    fu = draw(st.sampled_from(gen.FIELD_UNITS))
    cu = draw(st.sampled_from(gen.CURRENT_UNITS))
    fld = draw(gen.field(dev, fu, kinds=("constant", "float", "ramp"), bmax=0.3))
    cap = draw(st.sampled_from([1000, 1000, 1000, 3, 8]))
    # optionally the run starts from the saved final state of an earlier run (screened or not, in its own field), and may
    # itself be undriven: the currents the seed carries must then be screened all the same
    seed = None
    cur = draw(gen.currents(dev, cu, kinds=("dict",), jmax=0.2))
    if draw(st.integers(0, 2)) == 0:
        # the earlier run has its own field (any gauge) and the transport current, long enough for the order parameter to pick up
        # the phase gradients that keep a supercurrent flowing after the drive is removed
        seed = dict(field=draw(gen.field(dev, fu, kinds=("constant", "float", "gauge_param", "zero"), bmax=0.3)), include_screening=draw(st.booleans()),
                    nsteps=draw(st.integers(5, 30)), currents=cur)
        if draw(st.booleans()):
            fld = dict(kind="zero")
        if draw(st.booleans()):
            cur = None
    # another history: a run with other material parameters was made earlier in the same process on a copy of the device (a
    # penetration-depth sweep; Device.copy() shares the mesh by design) - it must not leave anything behind that this run picks up
    sweep = None
    if seed is None and scr and draw(st.integers(0, 3)) == 0:
        sweep = dict(lam=draw(st.sampled_from([0.5, 0.7, 1.6, 2.0])), d=draw(st.sampled_from([1.0, 1.0, 0.5, 2.0])), nsteps=draw(st.integers(1, 3)))
    return dict(kind="run", device=dev, field=fld, seed=seed, sweep=sweep,
                currents=cur,
                options=dict(dt_c=draw(gen.rf(0.05, 0.4)), dtmax_c=0.45, adaptive=draw(st.booleans()), adaptive_window=3,
                             include_screening=scr, screening_tolerance=draw(st.sampled_from([1e-2, 1e-3, 1e-4, 3e-3])),
                             screening_step_size=draw(st.sampled_from([0.1, 0.1, 0.5, 1.0, 0.05])),
                             screening_step_drag=draw(st.sampled_from([0.5, 0.5, 1.0, 0.2, 0.9])),
                             max_iterations_per_step=cap, field_units=fu, current_units=cu,
                             nsteps=draw(st.integers(3, 10 if tier == "quick" else 30)), save_every=draw(st.integers(1, 4)),
                             terminal_psi=draw(st.sampled_from([0.0, None]))))


def strategy(tier):
    return st.one_of(_kernel_case(tier), _run_case(tier), _run_case(tier))


def check_case(spec):
    res = Result()
    if spec["kind"] == "kernel":
        return _kernel(spec, res)
    return _run(spec, res)


def _kernel(spec, res):
    from tdgl.solver.screening import get_A_induced_numba

    nx, ny, h = spec["nx"], spec["ny"], spec["h"]
    sites = np.array([[(i + spec["offs"][i * ny + j][0]) * h, (j + spec["offs"][i * ny + j][1]) * h] for i in range(nx) for j in range(ny)])
    J = np.array(spec["J"], dtype=float)
    areas = np.array(spec["areas"], dtype=float) * h * h
    edge = np.array([[(e[0] + e[2]) * h, (e[1] + e[3]) * h] for e in spec["edge"]])
    out = np.full((len(edge), 2), np.nan)
    get_A_induced_numba(J, areas, sites, edge, out)
    dr = np.linalg.norm(edge[:, None, :] - sites[None, :, :], axis=2)
    terms = J[None, :, :] * (areas[None, :] / dr)[:, :, None]
    want = terms.astype(np.longdouble).sum(axis=1).astype(float)
    mag = np.abs(terms).sum(axis=1)
    err = float(np.max(np.abs(out - want) / (mag + 1e-300)))
    res.stat("kernel_vs_double_sum", err)
    res.label("kernel level")
    res.nontrivial = len(sites) >= 10
    if not np.all(np.isfinite(out)) or err > 1e-12:
        k = np.unravel_index(np.argmax(np.abs(out - want) / (mag + 1e-300)), out.shape)
        res.fail("C13.kernel", f"accelerated kernel gives {out[k]:.15g} at edge point {k[0]} component {k[1]}, direct double sum {want[k]:.15g}")
    return res


def site_average(mesh, edge_field):
    """Documented edge-to-site average: for every site the mean over its incident edges of (J_e * unit vector), halved."""
    em = mesh.edge_mesh
    unit = em.directions / np.linalg.norm(em.directions, axis=1)[:, None]
    vec = edge_field[:, None] * unit
    n = len(mesh.sites)
    acc = np.zeros((n, 2))
    cnt = np.zeros(n)
    for k in (0, 1):
        np.add.at(acc, em.edges[:, k], vec)
        np.add.at(cnt, em.edges[:, k], 1)
    return acc / cnt[:, None] / 2


def _run(spec, res):
    dev = build.make_device_or_refuse(spec["device"])
    mesh = dev.mesh
    lay = spec["device"]["layer"]
    sc = orc.si_scales(lay["xi"], lay["lam"], lay["d"], spec["device"]["lu"])
    xi_m = sc["xi_m"]
    sites_m = mesh.sites * xi_m
    edges_m = mesh.edge_mesh.centers * xi_m
    areas_m2 = mesh.areas * xi_m**2
    dr = np.linalg.norm(edges_m[:, None, :] - sites_m[None, :, :], axis=2)
    kernel = (orc.MU0 / (4 * np.pi)) * sc["K0"] / sc["A0"] * (areas_m2[None, :] / dr)  # (edges, sites), dimensionless per unit J

    def induced_from(J_edge):
        return kernel @ site_average(mesh, J_edge)

    scr = bool(spec["options"]["include_screening"])
    res.label("run level", "screening" if scr else "screening off")
    calls = []
    with sim.workdir():
        opts = build.make_options(spec["options"], dev, output_file="out.h5")
        tol = float(opts.screening_tolerance)
        alpha, beta = float(opts.screening_step_size), float(opts.screening_step_drag)
        seed_solution = None
        if spec.get("sweep"):
            sw = spec["sweep"]
            res.label("after a run with another penetration depth / thickness on a copy of the device (shared mesh)")
            other = dev.copy()
            other.layer.london_lambda = dev.layer.london_lambda * sw["lam"]
            other.layer.thickness = dev.layer.thickness * sw["d"]
            o0 = dict(spec["options"], nsteps=int(sw["nsteps"]), save_every=100, max_iterations_per_step=1000, adaptive=False)
            try:
                build.make_solver(other, build.make_options(o0, other, output_file="sweep.h5"),
                                  applied_vector_potential=build.make_vector_potential(spec["field"], other, opts.field_units, opts.solve_time),
                                  terminal_currents=None).solve()
            except (RuntimeError, ValueError) as exc:
                if "converge" not in str(exc) and "does not contain any points" not in str(exc):
                    raise
                res.label("earlier sweep run did not complete (documented refusal)")
        if spec.get("seed"):
            sd = spec["seed"]
            res.label("starts from a saved state (" + ("screened" if sd["include_screening"] else "unscreened") + " earlier run)",
                      "undriven after the seed" if spec["field"]["kind"] == "zero" and not spec["currents"] else "driven after the seed")
            o0 = dict(spec["options"], include_screening=bool(sd["include_screening"]), nsteps=int(sd["nsteps"]), save_every=100,
                      max_iterations_per_step=1000, dt_c=0.4, adaptive=False)
            try:
                seed_solution = build.make_solver(dev, build.make_options(o0, dev, output_file="seed.h5"),
                                                  applied_vector_potential=build.make_vector_potential(sd["field"], dev, opts.field_units, opts.solve_time),
                                                  terminal_currents=build.make_currents(sd.get("currents"))).solve()
                _ = seed_solution.tdgl_data
            except RuntimeError as exc:
                if "converge" in str(exc):
                    res.label("documented non-convergence (earlier run)")
                    return res
                raise
            except ValueError as exc:
                if "does not contain any points" in str(exc):
                    res.label("discarded: terminal without boundary sites")
                    return res
                raise
        try:
            solver = build.make_solver(dev, opts, applied_vector_potential=build.make_vector_potential(spec["field"], dev, opts.field_units, opts.solve_time),
                                       terminal_currents=build.make_currents(spec["currents"]), seed_solution=seed_solution)
        except ValueError as exc:
            if "does not contain any points" in str(exc):
                res.label("discarded: terminal without boundary sites")
                return res
            raise
        hist = sim.record_updates(solver)
        orig = solver.get_induced_vector_potential

        def giv(current_density, A_vals, velocity):
            rec = dict(call=len(hist.calls), J=np.array(current_density), A_prev=np.array(A_vals[-1]),
                       v_prev=np.array(velocity[-1]) * np.ones((len(current_density), 2)), nvals=len(A_vals))
            # self-consistency: the currents of this iteration were computed with link variables that contain this iterate
            rec["links_ok"] = bool(np.allclose(np.asarray(solver.operators.link_exponents), np.asarray(solver.current_A_applied) + rec["A_prev"],
                                               rtol=1e-13, atol=1e-300))
            A_out, err = orig(current_density, A_vals, velocity)
            rec["A_out"] = np.array(A_out)
            rec["err"] = float(err)
            calls.append(rec)
            return A_out, err

        solver.get_induced_vector_potential = giv
        raised = None
        try:
            sol = solver.solve()
        except RuntimeError as exc:
            if "Screening calculation failed to converge" in str(exc):
                raised = "screening"
            elif "converge" in str(exc):
                res.label("documented non-convergence (order parameter)")
                return res
            else:
                raise
        import os

        path = "out.h5"
        frames, _ = sim.read_frames(path) if os.path.exists(path) else ([], None)
    cap = int(opts.max_iterations_per_step)
    if cap < 100:
        res.label("small iteration cap")
    if not scr:
        if calls:
            res.fail("C13.off_calls", "screening disabled but the induced potential was evaluated")
        for fr in frames:
            if np.any(fr["induced_vector_potential"] != 0):
                res.fail("C13.off_nonzero", f"screening disabled but the stored induced potential of step {int(fr['attrs']['step'])} is not identically zero")
                break
        res.nontrivial = len(frames) >= 2
        return res

    # group calls by the update they belong to (index of the update in the recorded history)
    by_update = {}
    for c in calls:
        by_update.setdefault(c["call"], []).append(c)
    ncompleted = len([c for c in hist.calls if "dt" in c])
    worst_formula = 0.0
    for u, cs in sorted(by_update.items()):
        for it, c in enumerate(cs):
            if not c["links_ok"]:
                res.fail("C13.links_use_iterate", f"update {u} iteration {it}: the link variables in use are not applied + current induced iterate")
                break
            new_A = induced_from(c["J"])
            dA = new_A - c["A_prev"]
            v = (1 - beta) * c["v_prev"] + alpha * dA
            A_out = c["A_prev"] + v
            scale = max(float(np.max(np.abs(A_out))), 1e-300)
            e1 = float(np.max(np.abs(A_out - c["A_out"])) / scale)
            worst_formula = max(worst_formula, e1)
            if e1 > 1e-9:
                res.fail("C13.iterate", f"update {u} iteration {it}: returned iterate differs from Polyak step on (mu_0/4pi) sum K a / r by {e1:.3e} (relative)")
                break
            # the reported error is max_e |dA_e| / max(|A_e|, 1e-20).  The maximum is often attained where |A_e| is tiny,
            # where the 1e-9 agreement of the iterate (checked above) is not enough to recompute the ratio, so the error
            # is recomputed from the *returned* iterate: dA = (v_new - (1-drag) v_prev)/step with v_new = A_out - A_prev,
            # which together with the iterate check pins it to the SI sum (found necessary by the thorough tier)
            v_new = c["A_out"] - c["A_prev"]
            dA_impl = (v_new - (1 - beta) * c["v_prev"]) / alpha
            num = np.linalg.norm(dA_impl, axis=1)
            den = np.maximum(np.linalg.norm(c["A_out"], axis=1), 1e-20)
            want_err = float(np.max(num / den))
            amax = float(np.max(np.linalg.norm(c["A_out"], axis=1))) + float(np.max(np.abs(c["A_prev"])))
            slack = float(np.max(1e-13 * amax / (alpha * den)))
            if abs(want_err - c["err"]) > 1e-6 * max(want_err, 1e-30) + slack + 1e-12:
                res.fail("C13.reported_error", f"update {u} iteration {it}: reported relative error {c['err']:.6e}, recomputed {want_err:.6e}")
                break
        if res.violations:
            break
        completed = u < ncompleted
        errs = [c["err"] for c in cs]
        if completed:
            if errs[-1] >= tol:
                res.fail("C13.accepted_unconverged", f"update {u} was accepted with screening error {errs[-1]:.3e} >= tolerance {tol:.1e} after {len(cs)} iterations")
            if any(e < tol for e in errs[:-1]):
                res.fail("C13.iterated_past_convergence", f"update {u}: iteration continued although the error {min(errs[:-1]):.3e} was already below tolerance")
            if len(cs) > cap + 2:
                res.fail("C13.cap", f"update {u}: {len(cs)} iterations with max_iterations_per_step={cap}")
        else:
            if raised != "screening":
                res.fail("C13.incomplete_update", f"update {u} did not complete but no screening error was raised")
    res.stat("iterate_formula", worst_formula)
    # stored self-consistency: stored induced potential vs double sum of the stored currents
    worst = 0.0
    multi = False
    for fr in frames:
        s = int(fr["attrs"]["step"])
        if s == 0:
            if seed_solution is None and np.any(fr["induced_vector_potential"] != 0):
                res.fail("C13.initial", "initial induced potential is not zero")
            continue
        A = fr["induced_vector_potential"]
        new_A = induced_from(fr["supercurrent"] + fr["normal_current"])
        # relative to the larger of the stored potential and the sum it must reproduce (a stored zero does not reproduce a non-zero sum)
        amax = max(float(np.max(np.linalg.norm(A, axis=1))), float(np.max(np.linalg.norm(new_A, axis=1))))
        mism = float(np.max(np.linalg.norm(A - new_A, axis=1))) / max(amax, 1e-300)
        if alpha <= 0.2 and beta >= 0.4:
            worst = max(worst, mism / tol)
        # what is stored is exactly the last iterate and the currents it was evaluated with
        last = by_update.get(s - 1, [None])[-1]
        if last is not None:
            if not np.array_equal(last["A_out"], A):
                res.fail("C13.stored_is_last_iterate", f"step {s}: the stored induced potential is not the iterate returned by the last screening iteration")
                break
            if not np.array_equal(last["J"], fr["supercurrent"] + fr["normal_current"]):
                res.fail("C13.stored_currents", f"step {s}: the stored currents are not the ones the last screening iteration was evaluated with")
                break
        # "modest multiple": the stored iterate is A_prev + v with v = (1-drag) v_prev + step*dA, so it differs from the
        # Coulomb sum by (1-drag) v_prev - (1-step) dA.  For default-like settings (small step, drag >= 0.4) that is a
        # few times the tolerance (observed 0.6 tol); for step sizes near 1 or weak drag the momentum of the previous,
        # much larger correction dominates and no fixed multiple follows from the stopping rule, so only the exact
        # bound tol + |v|/|A| (from the recorded last iteration) is asserted there.
        if alpha <= 0.2 and beta >= 0.4:
            bound = 5 * tol
        elif last is not None:
            vmax = float(np.max(np.linalg.norm(last["A_out"] - last["A_prev"], axis=1)))
            bound = 1.05 * (tol + vmax / max(amax, 1e-300)) + 1e-12
        else:
            # no iteration was made for this step, so no momentum term either
            bound = 1.05 * tol + 1e-12
        if amax > 1e-12 and mism > bound:
            res.fail("C13.stored_self_consistency", f"step {s}: stored induced potential differs from (mu_0/4pi) sum K a/r of the stored currents by {mism:.3e} relative (tolerance {tol:.1e}, bound {bound:.3e}; step size {alpha}, drag {beta})")
            break
        if amax > 1e-6 and len(by_update.get(s - 1, [])) >= 2:
            multi = True
    res.stat("stored_mismatch/tol", worst)
    if raised == "screening":
        res.label("screening non-convergence raised")
        # nothing may be recorded for the failing step
        failing = ncompleted
        if any(int(fr["attrs"]["step"]) > failing for fr in frames):
            res.fail("C13.recorded_after_failure", f"a frame beyond the failing update {failing} was recorded")
        res.nontrivial = True
    else:
        res.nontrivial = multi
    return res
