"""C14 - saved devices, meshes, solutions and parameters load back unchanged."""
import dataclasses
import os
import pickle

import cloudpickle
import h5py
import numpy as np
from hypothesis import strategies as st

from .. import oracles as orc
from .. import build, gen, sim
from ..engine import Result
from . import c16

PID = "C14"
TITLE = "Saved devices, meshes, solutions and parameters load back unchanged"
LEVEL = "exploration"
TECHNIQUE = "round-trip oracle (save -> load -> compare) over generated devices, meshes, option sets, parameter expression trees and short solutions; array-level comparison by the harness in addition to the library's own equality"
RULE = (
    "case = generated device (holes / terminals / probe points / conductivity each present or absent) with its mesh, a generated option set "
    "(every None-able field set or unset, complex terminal value, solver given as enum or string), a parameter expression tree (depth <= 3) as "
    "applied potential, constant or callable currents and epsilon, and a short solution (3..10 frames) saved to its own file, to a copy and "
    "from memory; plus enumerated harness-made meshes of 11 000 .. 69 000 sites (around the 2^16 index boundary) for the mesh round trip alone; non-trivial = at least one optional component present and one absent, and for options at least one None-valued field; distinct by spec hash"
)
ASSUMPTIONS = [
    "Device.__eq__ ignores the mesh, so mesh arrays are compared by the harness (bit for bit)",
    "callables (currents, epsilon) are compared by behaviour at sample arguments, Parameters by == and by value",
]
LEVEL_TEXT = "Each case exercises all save/load paths (HDF5 path and group, pickle, cloudpickle, compressed mesh, solution file / copy / from memory) and compares every array and option field."
LEVEL_NOTE = "Trusted: h5py, numpy array equality."

MESH_ARRAYS = ("sites", "elements", "boundary_indices", "areas", "dual_sites")
EDGE_ARRAYS = ("centers", "edges", "boundary_edge_indices", "directions", "edge_lengths", "dual_edge_lengths", "normalized_directions")


def budget(tier):
    if tier == "quick":
        return dict(max_examples=360, workers=8, time_s=170, min_cases=100)
    return dict(max_examples=15000, workers=16, time_s=1200, min_cases=200)


@st.composite
def _case(draw, tier):
    scr = draw(st.integers(0, 3)) == 0
    dev = draw(gen.device(terminals=(0, 3), holes=(0, 2), probes=(0, 2, 3), film_kinds=("box", "ellipse", "union"), size=(3.5, 5.5),
                          screening=scr).filter(gen.valid_device))
    dev["layer"]["conductivity"] = draw(st.sampled_from([None, None, 3.5, 0.1]))
    fu = draw(st.sampled_from(gen.FIELD_UNITS))
    cu = draw(st.sampled_from(gen.CURRENT_UNITS))
    kind = draw(st.sampled_from(["tree", "tree", "field"]))
    if kind == "tree":
        tree, _ = draw(c16._tree("3d", draw(st.integers(1, 3))))
        if "op" not in tree:
            tree = dict(op="*", l=tree, r=dict(k="num", v=2))
        A = dict(kind="tree", tree=tree, scale=draw(gen.rf(0.01, 0.2)))
    else:
        A = draw(gen.field(dev, fu, kinds=("constant", "float", "ramp", "zero"), bmax=0.4))
    eps = draw(st.sampled_from([None, dict(kind="float", value=0.5), "disc", "timedep"]))
    if isinstance(eps, str):
        xi = dev["layer"]["xi"]
        c = dev["film"].get("center") or dev["film"]["parts"][0]["center"]
        eps = dict(kind="callable" if eps == "disc" else "timedep", x0=c[0], y0=c[1], radius=1.5 * xi, lo=0.2, t1=0.5)
    tp = draw(st.sampled_from([0.0, None, None, [0.3, -0.4], 1.0]))
    return dict(device=dev, A=A, currents=draw(gen.currents(dev, cu, kinds=("dict", "callable"))), epsilon=eps,
                output=draw(st.sampled_from(["file", "file", "none"])),
                options=dict(dt_c=draw(gen.rf(0.05, 0.3)), dtmax_c=0.4, adaptive=draw(st.booleans()), adaptive_window=draw(st.integers(1, 6)),
                             max_solve_retries=draw(st.integers(0, 10)), adaptive_time_step_multiplier=draw(gen.rf(0.1, 0.9)),
                             nsteps=draw(st.integers(2, 9)), skip_steps=draw(st.sampled_from([0, 0, 2])), save_every=draw(st.integers(1, 4)),
                             progress_interval=draw(st.sampled_from([0, 5])), field_units=fu, current_units=cu,
                             include_screening=scr, max_iterations_per_step=draw(st.sampled_from([1000, 200])),
                             screening_tolerance=draw(st.sampled_from([1e-3, 1e-2])), screening_step_size=draw(st.sampled_from([0.1, 1.0])),
                             screening_step_drag=draw(st.sampled_from([0.5, 1.0])), terminal_psi=tp,
                             sparse_solver=draw(st.sampled_from(["enum", "superlu", "SUPERLU"])), pause_on_interrupt=draw(st.booleans())))


def strategy(tier):
    return _case(tier)


def grid(tier):
    """Meshes far larger than any simulated one (tens of thousands of sites, around the 2^16 index boundary): only the
    mesh round trip is exercised, which needs no simulation."""
    sizes = [(110, 100), (256, 256)] if tier == "quick" else [(110, 100), (150, 150), (256, 256), (257, 256), (300, 230)]
    return [dict(kind="bigmesh", nx=nx, ny=ny, jitter=0.2, k=[1.3, 0.7, 2.1, 0.4], h=0.5) for nx, ny in sizes]


def _bigmesh(spec, res):
    import h5py
    from tdgl.finite_volume.mesh import Mesh

    from .. import meshgen

    mesh, info = meshgen.make_mesh(dict(src="grid", nx=spec["nx"], ny=spec["ny"], h=spec["h"], jitter=spec["jitter"], k=spec["k"], diag="delaunay"))
    n = spec["nx"] * spec["ny"]
    res.label("large mesh (round trip only)", f"sites~{'<=2^16' if n <= 65536 else '>2^16'}")
    if mesh is None:
        res.label(f"discarded: {info}")
        return res
    res.nontrivial = True
    with sim.workdir():
        for compress in (False, True):
            fn = f"mesh{int(compress)}.h5"
            with h5py.File(fn, "w") as f:
                mesh.to_hdf5(f.create_group("m"), compress=compress)
            with h5py.File(fn, "r") as f:
                m = Mesh.from_hdf5(f["m"])
            if compress:
                mesh_close(res, mesh, m, f"compressed mesh with {len(mesh.sites)} sites")
            else:
                mesh_equal(res, mesh, m, f"stored mesh with {len(mesh.sites)} sites")
    return res


def _same_array(x, y):
    """same values; same dtype for floating-point arrays (index arrays may come back in another integer width)"""
    x, y = np.asarray(x), np.asarray(y)
    if x.dtype.kind in "iu":
        return y.dtype.kind in "iu" and np.array_equal(x, y)
    return np.array_equal(x, y) and x.dtype == y.dtype


def mesh_equal(res, a, b, what):
    for k in MESH_ARRAYS:
        x, y = getattr(a, k), getattr(b, k)
        if not _same_array(x, y):
            res.fail("C14.mesh_arrays", f"{what}: mesh.{k} differs after the round trip (dtype {np.asarray(x).dtype} vs {np.asarray(y).dtype})")
            return False
    for k in EDGE_ARRAYS:
        x, y = getattr(a.edge_mesh, k), getattr(b.edge_mesh, k)
        if not _same_array(x, y):
            res.fail("C14.mesh_arrays", f"{what}: edge_mesh.{k} differs after the round trip")
            return False
    if len(a.voronoi_polygons) != len(b.voronoi_polygons) or any(not np.array_equal(p, q) for p, q in zip(a.voronoi_polygons, b.voronoi_polygons)):
        res.fail("C14.mesh_arrays", f"{what}: Voronoi polygons differ after the round trip")
        return False
    return True


def mesh_close(res, a, b, what):
    """restored vs recomputed: same values up to rounding, same integers exactly"""
    for k in MESH_ARRAYS:
        x, y = np.asarray(getattr(a, k)), np.asarray(getattr(b, k))
        ok = np.array_equal(x, y) if x.dtype.kind in "iu" else (x.shape == y.shape and np.allclose(x, y, rtol=1e-12, atol=1e-14))
        if not ok:
            res.fail("C14.mesh_recomputed", f"{what}: mesh.{k} restored from stored arrays differs from the one recomputed from the triangulation")
            return
    for k in EDGE_ARRAYS:
        x, y = np.asarray(getattr(a.edge_mesh, k)), np.asarray(getattr(b.edge_mesh, k))
        ok = np.array_equal(x, y) if x.dtype.kind in "iu" else (x.shape == y.shape and np.allclose(x, y, rtol=1e-12, atol=1e-14))
        if not ok:
            res.fail("C14.mesh_recomputed", f"{what}: edge_mesh.{k} restored differs from recomputed")
            return


def make_A(aspec, dev, fu):
    import tdgl

    if aspec["kind"] == "tree":
        # times a vector-valued leaf so that the expression is a vector field whatever the generated tree is
        return c16.build_tree(aspec["tree"]) * tdgl.Parameter(c16.v0, a=1.0) * aspec["scale"]
    return build.make_vector_potential(aspec, dev, fu)


def check_case(spec):
    import tdgl
    from tdgl.finite_volume.mesh import Mesh
    from tdgl.solver.options import SparseSolver

    res = Result()
    if spec.get("kind") == "bigmesh":
        return _bigmesh(spec, res)
    dspec = spec["device"]
    dev = build.make_device_or_refuse(dspec)
    present = [bool(dspec["holes"]), bool(dspec["terminals"]), bool(dspec.get("probes")), dspec["layer"].get("conductivity") is not None]
    res.label(f"holes={'y' if present[0] else 'n'}", f"terminals={'y' if present[1] else 'n'}", f"probes={'y' if present[2] else 'n'}",
              f"conductivity={'y' if present[3] else 'n'}", f"A={spec['A']['kind']}", f"output={spec['output']}",
              "screening" if spec["options"].get("include_screening") else "no screening")
    o = dict(spec["options"])
    none_fields = [k for k in ("terminal_psi",) if o.get(k) is None] + (["output_file"] if spec["output"] == "none" else [])
    res.nontrivial = any(present) and not all(present) and bool(none_fields)
    if none_fields:
        res.label("None-valued option")

    with sim.workdir() as (cwd, tmp):
        # ---------------- device: HDF5 by path, by group, pickle
        dev.to_hdf5("dev.h5")
        d1 = tdgl.Device.from_hdf5("dev.h5")
        with h5py.File("dev2.h5", "w") as f:
            dev.to_hdf5(f.create_group("some/group"))
        with h5py.File("dev2.h5", "r") as f:
            d2 = tdgl.Device.from_hdf5(f["some/group"])
        d3 = pickle.loads(pickle.dumps(dev))
        # a loaded device saved and loaded once more (second generation)
        d1.to_hdf5("dev3.h5")
        d4 = tdgl.Device.from_hdf5("dev3.h5")
        for name, d in (("hdf5 path", d1), ("hdf5 group", d2), ("pickle", d3), ("hdf5, saved again from the loaded device", d4)):
            if not (d == dev):
                res.fail("C14.device_equal", f"device loaded via {name} compares unequal to the original")
            if d.mesh is None:
                res.fail("C14.device_mesh", f"device loaded via {name} has no mesh")
            else:
                mesh_equal(res, dev.mesh, d.mesh, f"device via {name}")
            if (d.probe_points is None) != (dev.probe_points is None) or (d.probe_points is not None and not np.array_equal(d.probe_points, dev.probe_points)):
                res.fail("C14.device_probe_points", f"probe points differ after {name}")
            if [h.name for h in d.holes] != [h.name for h in dev.holes] or [t.name for t in d.terminals] != [t.name for t in dev.terminals]:
                res.fail("C14.device_order", f"holes/terminals come back in a different order via {name}")
            for p, q in zip(dev.polygons, d.polygons):
                if not np.array_equal(p.points, q.points) or p.mesh != q.mesh:
                    res.fail("C14.device_polygons", f"polygon {p.name} differs after {name}")
            if d.layer != dev.layer or d.layer.conductivity != dev.layer.conductivity or d.length_units != dev.length_units:
                res.fail("C14.device_layer", f"layer / units differ after {name}")
            if dev.terminals:
                a, b = dev.terminal_info(), d.terminal_info()
                if any(x.name != y.name or not np.array_equal(x.site_indices, y.site_indices) or x.length != y.length for x, y in zip(a, b)):
                    res.fail("C14.device_behaviour", f"terminal_info differs after {name}")
        # a stand-alone polygon that is excluded from meshing
        with h5py.File("poly.h5", "w") as f:
            p0 = tdgl.Polygon("aux", points=dev.film.points, mesh=False)
            p0.to_hdf5(f.create_group("p"))
            p1 = tdgl.Polygon(points=dev.film.points[::-1])
            p1.to_hdf5(f.create_group("q"))
        with h5py.File("poly.h5", "r") as f:
            q0, q1 = tdgl.Polygon.from_hdf5(f["p"]), tdgl.Polygon.from_hdf5(f["q"])
        if not (q0 == p0) or bool(q0.mesh) != bool(p0.mesh) or not np.array_equal(q0.points, p0.points) or q1.name is not None or not np.array_equal(q1.points, p1.points):
            res.fail("C14.polygon", "a polygon (mesh=False / unnamed) changes through to_hdf5/from_hdf5")
        if res.violations:
            return res
        # ---------------- mesh: full and compressed
        for compress in (False, True):
            fn = f"mesh{int(compress)}.h5"
            with h5py.File(fn, "w") as f:
                dev.mesh.to_hdf5(f.create_group("m"), compress=compress)
            with h5py.File(fn, "r") as f:
                m = Mesh.from_hdf5(f["m"])
                restorable = Mesh.is_restorable(f["m"])
            if restorable == compress:
                res.fail("C14.mesh_restorable", f"is_restorable={restorable} for compress={compress}")
            if compress:
                mesh_close(res, dev.mesh, m, "compressed mesh")
            else:
                mesh_equal(res, dev.mesh, m, "stored mesh")
        recomputed = Mesh.from_triangulation(dev.mesh.sites, dev.mesh.elements)
        mesh_equal(res, dev.mesh, recomputed, "recomputed from triangulation")
        if res.violations:
            return res

        # ---------------- options / solution
        ss = o.pop("sparse_solver")
        if ss == "enum":
            o["sparse_solver"] = SparseSolver.SUPERLU
        else:
            o["sparse_solver"] = ss
        out_path = None if spec["output"] == "none" else "sol.h5"
        opts = build.make_options(o, dev, output_file=out_path)
        A = make_A(spec["A"], dev, opts.field_units)
        cur = build.make_currents(spec["currents"], opts.solve_time)
        eps = build.make_epsilon(spec["epsilon"])
        try:
            sol = tdgl.solve(dev, opts, applied_vector_potential=A, terminal_currents=cur, disorder_epsilon=eps)
        except RuntimeError as exc:
            if "converge" in str(exc) or "exactly singular" in str(exc):
                res.label("discarded: documented non-convergence / singular factor")
                return res
            raise
        except ValueError as exc:
            if "does not contain any points" in str(exc):
                res.label("discarded: terminal without boundary sites")
                return res
            raise
        # ---------------- the device read back from disk behaves identically: the same problem solved on it gives the same
        # observables (|psi|, psi up to a global phase, mu up to its additive constant, currents) in every quantity
        if spec["options"].get("terminal_psi") is None or spec["options"].get("terminal_psi") == 0:
            try:
                o1 = dataclasses.replace(opts, output_file=None)
                sol1 = tdgl.solve(d1, o1, applied_vector_potential=make_A(spec["A"], d1, opts.field_units), terminal_currents=build.make_currents(spec["currents"], opts.solve_time),
                                  disorder_epsilon=build.make_epsilon(spec["epsilon"]))
                ta, tb = sol.tdgl_data, sol1.tdgl_data
                fa = dict(psi=ta.psi, mu=ta.mu, supercurrent=ta.supercurrent, normal_current=ta.normal_current)
                fb = dict(psi=tb.psi, mu=tb.mu, supercurrent=tb.supercurrent, normal_current=tb.normal_current)
                if int(ta.state["step"]) != int(tb.state["step"]) or not np.array_equal(sol.dynamics.dt, sol1.dynamics.dt):
                    res.fail("C14.device_behaviour", "the same problem on the device read back from disk takes other time steps")
                else:
                    cmp = orc.compare_frames(fa, fb)
                    worst = max(cmp.values())
                    res.stat("reloaded_device_run", worst)
                    if worst > 1e-7:
                        res.fail("C14.device_behaviour", f"the same problem solved on the device read back from disk gives other observables: {cmp}")
            except RuntimeError as exc:
                if "converge" not in str(exc) and "exactly singular" not in str(exc):
                    raise
        A = sol.applied_vector_potential  # what the solution holds (numbers are wrapped into a ConstantField by the solver)
        paths = []
        if out_path is not None:
            frames, _ = sim.read_frames(sol.path)
            paths.append(("own file", sol.path))
            sol.to_hdf5("copy.h5")
            paths.append(("copy", "copy.h5"))
        else:
            frames = None
            sol.to_hdf5("frommem.h5")
            paths.append(("from memory", "frommem.h5"))
        # second generation: a loaded solution saved and loaded once more
        try:
            tdgl.Solution.from_hdf5(paths[-1][1]).to_hdf5("second.h5")
            paths.append(("saved again from the loaded solution", "second.h5"))
        except Exception as exc:  # noqa: BLE001
            res.fail("C14.solution_resave", f"saving a loaded solution raised {type(exc).__name__}: {exc}")
        xs = dev.points[:5, 0]
        ys = dev.points[:5, 1]
        zs = np.zeros(5)
        for name, p in paths:
            try:
                L = tdgl.Solution.from_hdf5(p)
            except Exception as exc:  # noqa: BLE001
                res.fail("C14.solution_load", f"Solution.from_hdf5({name}) raised {type(exc).__name__}: {exc}")
                continue
            # options, field by field, including None-valued ones
            for fld in dataclasses.fields(opts):
                a, b = getattr(opts, fld.name), getattr(L.options, fld.name)
                if fld.name == "output_file":
                    continue  # the loaded solution may legitimately live in another file
                same = (a is None and b is None) or (a is not None and b is not None and a == b)
                if not same:
                    res.fail("C14.options", f"option {fld.name}: saved {a!r}, loaded {b!r} ({name})")
            if not L.equals(sol):
                res.fail("C14.solution_equals", f"loaded solution ({name}) does not equal() the original")
            if not (L.device == sol.device) or L.device.mesh is None or not mesh_equal(res, sol.device.mesh, L.device.mesh, f"solution device ({name})"):
                res.fail("C14.solution_device", f"device of the loaded solution ({name}) differs")
            # data at every recorded step
            if frames is not None:
                if tuple(int(v) for v in L.data_range) != (0, len(frames) - 1):
                    res.fail("C14.solution_range", f"data_range {L.data_range} for {len(frames)} recorded frames ({name})")
                for j, fr in enumerate(frames):
                    try:
                        L.solve_step = j
                    except Exception as exc:  # noqa: BLE001
                        res.fail("C14.solution_step", f"step {j} of the loaded solution ({name}) cannot be loaded: {type(exc).__name__}: {exc}")
                        break
                    td = L.tdgl_data
                    for k in ("psi", "mu", "supercurrent", "normal_current", "induced_vector_potential"):
                        if not np.array_equal(getattr(td, k), fr[k]):
                            res.fail("C14.solution_data", f"{k} of recorded step {j} differs after loading ({name})")
                            break
                    if int(td.state["step"]) != int(fr["attrs"]["step"]) or float(td.state["time"]) != float(fr["attrs"]["time"]):
                        res.fail("C14.solution_state", f"step/time label of frame {j} differs after loading ({name})")
                L.solve_step = sol.solve_step
            else:
                td0, td1 = sol.tdgl_data, L.tdgl_data
                for k in ("psi", "mu", "supercurrent", "normal_current", "induced_vector_potential"):
                    if not np.array_equal(getattr(td0, k), getattr(td1, k)):
                        res.fail("C14.solution_data", f"{k} differs after saving from memory and loading")
            if not np.array_equal(L.dynamics.dt, sol.dynamics.dt):
                res.fail("C14.solution_dynamics", f"per-step dt record differs after loading ({name})")
            for col in ("mu", "theta", "screening_iterations", "time"):
                a_, b_ = getattr(sol.dynamics, col), getattr(L.dynamics, col)
                if (a_ is None) != (b_ is None) or (a_ is not None and not np.array_equal(a_, b_)):
                    res.fail("C14.solution_dynamics", f"per-step record '{col}' differs after loading ({name})")
            # parameters behave identically
            LA = L.applied_vector_potential
            try:
                if not (LA == A):
                    res.fail("C14.parameter_equal", f"applied potential loaded from the solution ({name}) compares unequal to the original")
                if bool(LA.time_dependent) != bool(A.time_dependent):
                    res.fail("C14.parameter_flag", f"time_dependent changed through the solution file ({name})")
                kw = dict(t=0.37) if A.time_dependent else {}
                if not np.allclose(np.asarray(LA(xs, ys, zs, **kw)), np.asarray(A(xs, ys, zs, **kw)), rtol=1e-13, atol=0, equal_nan=True):
                    res.fail("C14.parameter_value", f"applied potential evaluates differently after loading ({name})")
                LA._clear_cache()
            except Exception as exc:  # noqa: BLE001
                res.fail("C14.parameter_usable", f"applied potential loaded from the solution ({name}) is unusable: {type(exc).__name__}: {exc}")
            # currents / epsilon behave identically
            lc = L.terminal_currents
            if callable(cur):
                for t in (0.0, 0.01, 0.5):
                    if lc(t) != cur(t):
                        res.fail("C14.currents", f"terminal currents evaluate differently after loading ({name})")
                        break
            elif (lc or None) != (cur or None) and not (lc is None and cur is None):
                if dict(lc or {}) != dict(cur or {}):
                    res.fail("C14.currents", f"terminal currents {cur} loaded as {lc} ({name})")
            le = L.disorder_epsilon
            if callable(eps):
                r0 = (float(xs[0]), float(ys[0]))
                kwt = dict(t=0.2) if spec["epsilon"]["kind"] == "timedep" else {}
                if le(r0, **kwt) != eps(r0, **kwt):
                    res.fail("C14.epsilon", f"disorder epsilon evaluates differently after loading ({name})")
            else:
                # a number is wrapped by the solver into a function of the site array
                rr = np.stack([xs, ys], axis=1)
                val = le(rr) if callable(le) else le * np.ones(len(rr))
                if not np.array_equal(np.asarray(val, dtype=float), float(eps) * np.ones(len(rr))):
                    res.fail("C14.epsilon", f"disorder epsilon {eps} evaluates to {val} after loading ({name})")
        # ---------------- parameters on their own
        for nm, dumps, loads in (("pickle", pickle.dumps, pickle.loads), ("cloudpickle", cloudpickle.dumps, cloudpickle.loads)):
            try:
                B = loads(dumps(A))
                kw = dict(t=0.37) if A.time_dependent else {}
                if not (B == A) or bool(B.time_dependent) != bool(A.time_dependent) or not np.allclose(np.asarray(B(xs, ys, zs, **kw)), np.asarray(A(xs, ys, zs, **kw)), rtol=1e-13, atol=0):
                    res.fail("C14.parameter_pickle", f"{nm} round trip of the applied potential changes it")
                B._clear_cache()
            except Exception as exc:  # noqa: BLE001
                res.fail("C14.parameter_pickle", f"{nm} round trip of the applied potential failed: {type(exc).__name__}: {exc}")
    return res
