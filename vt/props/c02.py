"""C02 - each step solves psi' + z|psi'|^2 = w on the physical branch, refuses iff no solution.

Direct calls of the public static ``TDGLSolver.solve_for_psi_squared`` on generated per-site
inputs; oracle = the documented z, w, c, discriminant recomputed in 80-bit long double.
"""
import numpy as np
import scipy.sparse as sp
from hypothesis import strategies as st

from ..engine import Result

PID = "C02"
TITLE = "Each step solves the discretised TDGL equation on the physical branch"
LEVEL = "exploration"
TECHNIQUE = "Hypothesis-generated per-site inputs vs. long-double reference of the documented quadratic (differential oracle + validity predicates)"
RULE = (
    "case = vector of 1..64 sites (psi magnitude drawn from {0, 1e-300..1e-3, 1e-3..1, 1..1e3}, mu, epsilon, "
    "gamma incl. 0, u, dt over ten decades, random complex sparse Laplacian) x retry ladder (adaptive on/off, max retries 0..10, multiplier 0.01..0.9) for the update as a whole; non-trivial = contains an exact-zero, "
    "a |psi|<1e-100 or a |psi|>1 site, or is refused, or has a site within 1e-3 relative of the discriminant boundary; "
    "distinct by spec hash"
    "; one case in forty is a whole generated simulation (with / without screening) in which every Euler update and every solver update is recorded and compared with the equation built from the state at step n"
)
ASSUMPTIONS = [
    "numpy.longdouble is the x87 80-bit format (checked at import); the reference is trusted at that precision",
    "inputs stay inside the double range (generator bounds |w|^2 |z|^2 < 1e60): overflow is outside the property",
    "cases whose reference discriminant lies inside the rounding margin are asserted on neither side (counted as 'undecided')",
]

LD = np.longdouble
CLD = np.clongdouble
assert np.finfo(LD).nmant >= 63, "long double is not wider than double here"


def budget(tier):
    if tier == "quick":
        return dict(max_examples=8000, workers=8, time_s=150, min_cases=1500)
    return dict(max_examples=600000, workers=16, time_s=1200, min_cases=3000)


# ------------------------------------------------------------------ generator

_mant = st.floats(1.0, 9.999, allow_nan=False)


def _mag():
    return st.one_of(
        st.just(0.0),
        st.tuples(_mant, st.integers(-300, -4)).map(lambda t: t[0] * 10.0 ** t[1]),
        st.floats(1e-3, 1.0),
        st.floats(1.0, 1e3),
        st.just(1.0),
    )


def _logu(lo, hi):
    return st.tuples(_mant, st.integers(lo, hi - 1)).map(lambda t: t[0] * 10.0 ** t[1])


@st.composite
def _spec(draw, max_n):
    n = draw(st.integers(1, max_n))
    r = draw(st.lists(_mag(), min_size=n, max_size=n))
    th = draw(st.lists(st.floats(-3.2, 3.2), min_size=n, max_size=n))
    mu = draw(
        st.lists(
            st.one_of(st.just(0.0), st.floats(-1e3, 1e3), st.floats(-1.0, 1.0)),
            min_size=n, max_size=n,
        )
    )
    eps = draw(st.lists(st.floats(-1.0, 1.0), min_size=n, max_size=n))
    gamma = draw(st.one_of(st.just(0.0), _logu(-3, 2), st.just(10.0)))
    u = draw(_logu(-2, 2))
    dt = draw(_logu(-8, 2))
    kind = draw(st.sampled_from(["zero", "diag", "sparse"]))
    entries = []
    if kind == "diag":
        for i in range(n):
            entries.append([i, i, draw(st.floats(-1e4, 1e4)), 0.0])
    elif kind == "sparse":
        m = draw(st.integers(0, 3 * n))
        for _ in range(m):
            entries.append(
                [
                    draw(st.integers(0, n - 1)),
                    draw(st.integers(0, n - 1)),
                    draw(st.floats(-1e3, 1e3)),
                    draw(st.floats(-1e3, 1e3)),
                ]
            )
    # the update as a whole: the documented retry ladder dt, dt*m, dt*m^2, ... (adaptive) or the single attempt (adaptive off)
    ladder = dict(adaptive=draw(st.sampled_from([True, True, True, False])), retries=draw(st.sampled_from([0, 0, 1, 2, 3, 5, 10])),
                  multiplier=draw(st.sampled_from([0.25, 0.5, 0.1, 0.9, 0.01])))
    return dict(n=n, r=r, theta=th, mu=mu, eps=eps, gamma=gamma, u=u, dt=dt, lap=entries, ladder=ladder)


@st.composite
def _solver_update_case(draw, tier):
    """The update as the solver performs it inside a simulation (with and without screening iterations)."""
    from .. import gen

    scr = draw(st.integers(0, 2)) > 0
    dev = draw(gen.device(terminals=(0, 2), holes=(0, 1), probes=(0,), film_kinds=("box", "ellipse"), size=(3.5, 5.0), screening=scr,
                          lshape=False).filter(gen.valid_device))
    fu = draw(st.sampled_from(gen.FIELD_UNITS))
    cu = draw(st.sampled_from(gen.CURRENT_UNITS))
    return dict(kind="solver_update", device=dev, field=draw(gen.field(dev, fu, kinds=("constant", "float", "ramp"), bmax=0.3)),
                currents=draw(gen.currents(dev, cu, kinds=("dict",), jmax=0.2)),
                options=dict(dt_c=draw(gen.rf(0.05, 0.4)), dtmax_c=0.45, adaptive=draw(st.booleans()), adaptive_window=3, include_screening=scr,
                             screening_tolerance=draw(st.sampled_from([1e-3, 1e-4])), field_units=fu, current_units=cu,
                             nsteps=draw(st.integers(2, 6)), save_every=1, terminal_psi=draw(st.sampled_from([0.0, None]))))


def strategy(tier):
    n = 12 if tier == "quick" else 64
    # one case in forty is a whole simulation (three orders of magnitude more expensive than a direct call)
    return st.integers(0, 39).flatmap(lambda i: _solver_update_case(tier) if i == 0 else _spec(n))


# ------------------------------------------------------------------ oracle


def _inputs(spec):
    n = spec["n"]
    r = np.array(spec["r"], dtype=float)
    th = np.array(spec["theta"], dtype=float)
    psi = (r * np.exp(1j * th)).astype(np.complex128)
    psi[r == 0] = 0.0
    mu = np.array(spec["mu"], dtype=float)
    eps = np.array(spec["eps"], dtype=float)
    L = np.zeros((n, n), dtype=np.complex128)
    for i, j, re, im in spec["lap"]:
        L[int(i), int(j)] += complex(re, im)
    return psi, mu, eps, L


def reference(psi, abs_sq, mu, eps, gamma, u, dt, L):
    """z, w, c, D and the magnitude scale of the terms of w, all in long double."""
    psi_l = psi.astype(CLD)
    a2 = abs_sq.astype(LD)
    mu_l = mu.astype(LD)
    g, u_l, dt_l = LD(gamma), LD(u), LD(dt)
    phase = -(mu_l * dt_l)
    U = (np.cos(phase) + 1j * np.sin(phase)).astype(CLD)
    z = U * (g * g / 2) * psi_l
    Lpsi = L.astype(CLD) @ psi_l
    root = np.sqrt(1 + g * g * a2)
    w = z * a2 + U * (psi_l + (dt_l / u_l) * root * ((eps.astype(LD) - a2) * psi_l + Lpsi))
    absL = np.abs(L).astype(LD) @ np.abs(psi_l)
    scale = (
        np.abs(z) * a2
        + np.abs(psi_l)
        + (dt_l / u_l) * root * (np.abs(eps.astype(LD) - a2) * np.abs(psi_l) + absL)
    )
    c = w.real * z.real + w.imag * z.imag
    tc1 = 2 * c + 1
    z2 = np.abs(z) ** 2
    w2 = np.abs(w) ** 2
    D = tc1 * tc1 - 4 * z2 * w2
    return dict(z=z, w=w, c=c, tc1=tc1, z2=z2, w2=w2, D=D, scale=scale)


REL = LD(1e-9)  # tolerance of the equation residual (observed ~1e-12 of the term scale)
ETA = LD(1e-12)  # assumed relative rounding level for error propagation (1e4 x double epsilon)
TINY = LD(1e-280)


def error_model(ref, eta):
    """First-order propagation of a relative rounding ``eta`` on every intermediate of the
    documented formulas; returns absolute error bounds for tc1, D, x and psi'."""
    z = np.sqrt(ref["z2"])
    wabs = np.sqrt(ref["w2"])
    dw = eta * ref["scale"]
    dw2 = 2 * wabs * dw + dw * dw + eta * ref["w2"]
    dt1 = 2 * z * dw + eta * (1 + np.abs(ref["tc1"]) + 2 * z * wabs)
    dD = 2 * np.abs(ref["tc1"]) * dt1 + 4 * ref["z2"] * dw2 + eta * (ref["tc1"] ** 2 + 4 * ref["z2"] * ref["w2"])
    return dict(dw=dw, dw2=dw2, dt1=dt1, dD=dD, z=z, wabs=wabs)


def _decide(psi, abs_sq, mu, eps, gamma, u, dt, L):
    """'answer' / 'refuse' / None (inside the rounding band, or out of range) for one attempt with time step dt"""
    ref = reference(psi, abs_sq, mu, eps, gamma, u, dt, L)
    big = float(np.max(ref["z2"] * ref["w2"]) + np.max(ref["scale"]) ** 2 + np.max(np.abs(ref["tc1"])) ** 2)
    if not np.isfinite(big) or big > 1e120:
        return None
    em = error_model(ref, ETA)
    D, tc1 = ref["D"], ref["tc1"]
    if np.any(D < -4 * em["dD"]) or np.any(tc1 < -4 * em["dt1"]):
        return "refuse"
    if np.all(D > 4 * em["dD"]) and np.all(tc1 > 4 * em["dt1"]):
        return "answer"
    return None


def _check_ladder(spec, res, psi, abs_sq, mu, eps, L):
    """The update (TDGLSolver.adaptive_euler_step, the documented retry loop around solve_for_psi_squared) is answered with the
    first time step of the ladder for which a solution exists at every site, and refused only if there is none."""
    import types

    from tdgl.solver.solver import TDGLSolver

    lad = spec["ladder"]
    gamma, u, dt0 = spec["gamma"], spec["u"], spec["dt"]
    R, m, adaptive = int(lad["retries"]), float(lad["multiplier"]), bool(lad["adaptive"])
    rungs = [dt0]
    if adaptive:
        for _ in range(R + 1):
            rungs.append(rungs[-1] * m)
    verdicts = [_decide(psi, abs_sq, mu, eps, gamma, u, d, L) for d in rungs]
    lap = sp.csr_array(L)
    me = types.SimpleNamespace(options=types.SimpleNamespace(adaptive=adaptive, max_solve_retries=R, adaptive_time_step_multiplier=m),
                               gamma=gamma, u=u, operators=types.SimpleNamespace(psi_laplacian=lap),
                               solve_for_psi_squared=TDGLSolver.solve_for_psi_squared)
    try:
        out = TDGLSolver.adaptive_euler_step(me, 3, psi.copy(), abs_sq.copy(), mu, eps, dt0)
    except RuntimeError as exc:
        if "failed to converge" not in str(exc):
            raise
        out = None
    first_answer = next((k for k, v in enumerate(verdicts) if v == "answer"), None)
    res.label(f"update: {'refused' if out is None else 'answered'}", "update: adaptive" if adaptive else "update: adaptive off")
    if out is None:
        if first_answer is not None and all(v == "refuse" for v in verdicts[:first_answer]):
            res.fail("C02.update_refused_although_solvable",
                     f"the update raised although attempt {first_answer} of {len(rungs)} (dt={rungs[first_answer]:.3e}, max_solve_retries={R}, "
                     f"multiplier={m}, adaptive={adaptive}) has a solution at every site")
        if first_answer is not None and first_answer == len(rungs) - 1 and first_answer > 0:
            res.label("update: solvable only at the last permitted attempt")
        return
    new_psi, new_sq, dt_used = out
    k = next((j for j, d in enumerate(rungs) if d == dt_used), None)
    if k is None:
        res.fail("C02.update_time_step", f"the update was answered with dt={dt_used!r}, which is not one of the attempts {rungs[:4]}..")
        return
    if k:
        res.label("update: answered after retries")
        if k == len(rungs) - 1:
            res.label("update: solvable only at the last permitted attempt")
    if verdicts[k] == "refuse":
        res.fail("C02.update_answered_without_solution", f"the update was answered at attempt {k} (dt={dt_used:.3e}) although no solution exists at some site")
    j = next((j for j, v in enumerate(verdicts[:k]) if v == "answer"), None)
    if j is not None:
        res.fail("C02.update_skipped_solvable_step", f"the update was answered at attempt {k} although attempt {j} (dt={rungs[j]:.3e}) already has a solution at every site")
    direct = TDGLSolver.solve_for_psi_squared(psi=psi.copy(), abs_sq_psi=abs_sq.copy(), mu=mu, epsilon=eps, gamma=gamma, u=u, dt=dt_used, psi_laplacian=lap)
    if direct is None or not (np.array_equal(np.asarray(direct[0]), np.asarray(new_psi)) and np.array_equal(np.asarray(direct[1]), np.asarray(new_sq))):
        res.fail("C02.update_result", f"the update's answer at dt={dt_used:.3e} is not the solution of the documented equation for that time step")


def _check_solver_update(spec, res):
    """Inside a simulation: every update from step n to n+1 - however many screening iterations it takes - must hand back the
    psi' that solves the documented equation with z, w built from (psi^n, mu^n) and the time step it reports, for the link
    variables in use when psi' was computed."""
    from tdgl.solver.solver import TDGLSolver

    from .. import build, sim

    dev = build.make_device_or_refuse(spec["device"])
    scr = bool(spec["options"]["include_screening"])
    res.label("update inside a simulation", "screening" if scr else "no screening", "adaptive" if spec["options"]["adaptive"] else "fixed dt")
    with sim.workdir():
        opts = build.make_options(spec["options"], dev, output_file="out.h5")
        try:
            solver = build.make_solver(dev, opts, applied_vector_potential=build.make_vector_potential(spec["field"], dev, opts.field_units, opts.solve_time),
                                       terminal_currents=build.make_currents(spec["currents"]))
        except ValueError as exc:
            if "does not contain any points" in str(exc):
                res.label("discarded: terminal without boundary sites")
                return res
            raise
        euler_calls = []
        orig_euler = solver.adaptive_euler_step

        def euler(step, psi, abs_sq_psi, mu, epsilon, dt):
            out = orig_euler(step, psi, abs_sq_psi, mu, epsilon, dt)
            euler_calls.append(dict(psi=np.array(psi), abs_sq=np.array(abs_sq_psi), mu=np.array(mu), eps=np.array(epsilon) * np.ones(len(psi)),
                                    dt=float(out[2]), L=solver.operators.psi_laplacian.copy(), out=np.array(out[0])))
            return out

        solver.adaptive_euler_step = euler
        updates = []
        orig_update = solver.update

        def update(state, running_state, dt, **kw):
            first = len(euler_calls)
            out = orig_update(state, running_state, dt, **kw)
            updates.append(dict(psi_n=np.array(kw["psi"]), mu_n=np.array(kw["mu"]), psi_new=np.array(out.psi), dt=float(out.dt),
                                calls=euler_calls[first:], step=int(state["step"])))
            return out

        solver.update = update
        try:
            solver.solve()
        except RuntimeError as exc:
            if "converge" not in str(exc):
                raise
            res.label("documented non-convergence")
    multi = False
    for up in updates:
        if not up["calls"]:
            continue
        if len(up["calls"]) >= 2:
            multi = True
        a2 = np.absolute(up["psi_n"]) ** 2
        for j, c in enumerate(up["calls"]):
            if not (np.array_equal(c["psi"], up["psi_n"]) and np.array_equal(c["mu"], up["mu_n"]) and np.array_equal(c["abs_sq"], a2)):
                what = [n for n, ok in (("psi", np.array_equal(c["psi"], up["psi_n"])), ("mu", np.array_equal(c["mu"], up["mu_n"])),
                                        ("|psi|^2", np.array_equal(c["abs_sq"], a2))) if not ok]
                res.fail("C02.update_not_from_state_n", f"step {up['step']}, screening iteration {j}: the Euler update was computed from {what} that are not those of "
                         f"step n (max |psi - psi^n| = {float(np.max(np.abs(c['psi'] - up['psi_n']))):.3e}), so psi^(n+1) is not one update away from psi^n")
                break
        last = up["calls"][-1]
        ref = TDGLSolver.solve_for_psi_squared(psi=up["psi_n"].copy(), abs_sq_psi=a2.copy(), mu=up["mu_n"], epsilon=last["eps"], gamma=solver.gamma, u=solver.u,
                                               dt=up["dt"], psi_laplacian=last["L"])
        if ref is None:
            res.fail("C02.update_equation", f"step {up['step']}: update answered with dt={up['dt']:.3e} although the equation built from (psi^n, mu^n) has no solution")
            continue
        err = float(np.max(np.abs(ref[0] - up["psi_new"])))
        res.stat("update_vs_equation", err)
        if err > 1e-10:
            res.fail("C02.update_equation", f"step {up['step']} ({len(up['calls'])} screening iteration(s)): the psi handed back differs by {err:.3e} from the solution of "
                     f"psi' + z|psi'|^2 = w with z, w built from (psi^n, mu^n) and the reported dt={up['dt']:.3e}")
    if multi:
        res.label("an update with >= 2 screening iterations")
    res.nontrivial = multi or (not scr and len(updates) >= 2)
    return res


def check_case(spec):
    from tdgl.solver.solver import TDGLSolver

    res = Result()
    if spec.get("kind") == "solver_update":
        return _check_solver_update(spec, res)
    psi, mu, eps, L = _inputs(spec)
    if spec.get("ladder"):
        _check_ladder(spec, res, psi, np.absolute(psi) ** 2, mu, eps, L)
    abs_sq = np.absolute(psi) ** 2  # exactly what the caller does
    gamma, u, dt = spec["gamma"], spec["u"], spec["dt"]
    ref = reference(psi, abs_sq, mu, eps, gamma, u, dt, L)
    # soundness guard: stay far inside the double range
    big = float(np.max(ref["z2"] * ref["w2"]) + np.max(ref["scale"]) ** 2 + np.max(np.abs(ref["tc1"])) ** 2)
    if not np.isfinite(big) or big > 1e120:
        res.label("out_of_range_skipped")
        return res
    em = error_model(ref, ETA)
    D, tc1 = ref["D"], ref["tc1"]
    # A non-negative real solution exists at a site iff D >= 0 and 2c+1 >= 0 (for 2c+1 < 0 both
    # roots of the quadratic are negative).  Inside the rounding band nothing is asserted.
    must_refuse = bool(np.any(D < -4 * em["dD"]) or np.any(tc1 < -4 * em["dt1"]))
    must_answer = bool(np.all(D > 4 * em["dD"]) and np.all(tc1 > 4 * em["dt1"]))
    near = bool(np.any(np.abs(D) <= 1e-3 * (tc1 ** 2 + 4 * ref["z2"] * ref["w2"])))

    out = TDGLSolver.solve_for_psi_squared(
        psi=psi.copy(), abs_sq_psi=abs_sq.copy(), mu=mu, epsilon=eps, gamma=gamma, u=u, dt=dt,
        psi_laplacian=sp.csr_array(L),
    )
    r = np.array(spec["r"])
    has_zero = bool(np.any(r == 0))
    has_tiny = bool(np.any((r > 0) & (r < 1e-100)))
    has_big = bool(np.any(r > 1))
    res.label("refused" if out is None else "answered")
    if has_zero:
        res.label("psi=0 site")
    if has_tiny:
        res.label("|psi|<1e-100 site")
    if has_big:
        res.label("|psi|>1 site")
    if gamma == 0:
        res.label("gamma=0")
    if near:
        res.label("near discriminant boundary")
    if np.any(tc1 < 0):
        res.label("2c+1<0 at some site")
    if not (must_refuse or must_answer):
        res.label("undecided (inside rounding margin)")
    res.nontrivial = has_zero or has_tiny or has_big or near or out is None

    if out is None:
        if must_answer:
            res.fail(
                "C02.refused_although_solvable",
                f"returned None; reference discriminant >= {float(np.min(D)):.3e} > 0 and 2c+1 >= {float(np.min(tc1)):.3e} > 0 "
                f"at every site (smallest non-zero |psi| {float(np.min(r[r > 0])) if np.any(r > 0) else 0:.3e}, dt={dt:.3e})",
            )
        return res
    if must_refuse:
        i = int(np.argmin(np.minimum(D / (em["dD"] + TINY), tc1 / (em["dt1"] + TINY))))
        res.fail(
            "C02.answered_without_solution",
            f"answered although no non-negative root exists at site {i}: D={float(D[i]):.3e}, 2c+1={float(tc1[i]):.3e}; "
            f"reported x={np.asarray(out[1])[i]!r}",
        )
        return res

    new_psi, x = out
    new_psi = np.asarray(new_psi)
    x = np.asarray(x)
    if np.iscomplexobj(x) and np.any(x.imag != 0):
        res.fail("C02.x_not_real", f"reported |psi'|^2 is complex: {x}")
        return res
    x = x.real if np.iscomplexobj(x) else x
    if not (np.all(np.isfinite(x)) and np.all(np.isfinite(new_psi))):
        res.fail("C02.nonfinite", f"non-finite answer x={x} psi'={new_psi}")
        return res
    xl = x.astype(LD)
    pl = new_psi.astype(CLD)
    # (i) the documented equation psi' + z x = w
    resid = np.abs(pl + ref["z"] * xl - ref["w"])
    bound = REL * (ref["scale"] + np.abs(ref["z"]) * np.abs(xl) + np.abs(pl)) + TINY
    worst = float(np.max(resid / bound))
    res.stat("equation_residual/tol", worst)
    if worst > 1:
        i = int(np.argmax(resid / bound))
        res.fail(
            "C02.equation_residual",
            f"|psi'+z x-w|={float(resid[i]):.3e} > tol {float(bound[i]):.3e} at site {i} (|w|={float(abs(ref['w'][i])):.3e})",
        )
    # sites where the two roots are well separated (conditioning): error-propagated bounds apply
    ok = (D > 16 * em["dD"]) & (tc1 > 16 * em["dt1"])
    res.stat("share_of_illconditioned_sites", 1.0 - float(np.mean(ok)))
    if np.any(ok & (xl < 0)):
        res.fail("C02.x_negative", f"negative |psi'|^2: min {float(xl.min()):.3e}")
    sqD = np.sqrt(np.maximum(D, 0))
    den = tc1 + sqD
    with np.errstate(all="ignore"):
        dsq = em["dD"] / (2 * sqD)
        xm = np.maximum(np.abs(xl), np.abs(2 * ref["w2"] / np.where(den != 0, den, 1)))
        # x = 2|w|^2/den: absolute propagation (the relative form breaks down when w cancels to exactly 0 in the reference)
        dx = 2 * em["dw2"] / den + xm * ((em["dt1"] + dsq) / den + ETA)
    dpsi = em["dw"] + em["z"] * dx + ETA * (em["wabs"] + em["z"] * np.abs(xl))
    # (ii) x == |psi'|^2
    p2 = np.abs(pl) ** 2
    err2 = np.abs(xl - p2)
    b2 = dx + 2 * np.abs(pl) * dpsi + dpsi ** 2 + 1e3 * ETA * (np.abs(xl) + p2) + TINY
    if np.any(ok):
        worst2 = float(np.max((err2 / b2)[ok]))
        res.stat("modulus_consistency/tol", worst2)
        if worst2 > 1:
            i = int(np.argmax(np.where(ok, err2 / b2, 0)))
            res.fail(
                "C02.x_is_not_modulus_squared",
                f"x={float(xl[i]):.6e} but |psi'|^2={float(p2[i]):.6e} at site {i} (bound {float(b2[i]):.2e})",
            )
        # (iii) branch: 2|z|^2 x - (2c+1) must be -sqrt(D) (the root that stays finite as |z| -> 0)
        lhs = 2 * ref["z2"] * xl - tc1
        slack = 2 * ref["z2"] * dx + em["dt1"] + 1e3 * ETA * (np.abs(tc1) + 2 * ref["z2"] * np.abs(xl)) + TINY
        bad = ok & (lhs > slack) & (sqD > 4 * slack)
        if np.any(bad):
            i = int(np.argmax(bad))
            res.fail(
                "C02.wrong_branch",
                f"site {i}: 2|z|^2 x - (2c+1) = {float(lhs[i]):.3e} > 0: the larger root was taken (sqrt(D)={float(sqD[i]):.3e})",
            )
        # value: x equals the documented root 2|w|^2/((2c+1)+sqrt(D))
        xref = 2 * ref["w2"] / den
        ex = np.abs(xl - xref)
        bx = dx + 1e3 * ETA * np.abs(xref) + TINY
        worst3 = float(np.max((ex / bx)[ok]))
        res.stat("root_value/tol", worst3)
        if worst3 > 1:
            i = int(np.argmax(np.where(ok, ex / bx, 0)))
            res.fail("C02.root_value", f"x={float(xl[i]):.6e} but documented root is {float(xref[i]):.6e} at site {i}")
    return res

LEVEL_TEXT = (
    "Generated-input search (thousands of per-site input vectors per run, 2e5 in the thorough tier) against an independent "
    "long-double evaluation of the documented quadratic: equation residual, modulus consistency, branch, documented root "
    "value, and both directions of the refuse/answer decision.  Exploration, not proof: the per-site input space is "
    "continuous, so absence of violations is statistical."
)
LEVEL_NOTE = (
    "Trusted: numpy long double (80-bit), the documentation's definition of z, w, c; a first-order rounding model "
    "(relative 1e-12 per intermediate) decides which sites are well-conditioned enough to assert on."
)
