"""C05 - recorded frames, times and per-step records are consistent.

Every run is checked against an executable specification of the runner that is fed with
the *observed* history of calls to the documented ``TDGLSolver.update`` (labels given,
dt returned, digests of the returned arrays): from that history alone the specification
predicts which frames the file must contain, their labels, their content and their
per-step records.
"""
import numpy as np
from hypothesis import strategies as st

from .. import build, gen, sim
from .. import oracles as orc
from ..engine import Result

PID = "C05"
TITLE = "Recorded frames, times and per-step records are consistent"
LEVEL = "exploration"
TECHNIQUE = (
    "exhaustive enumeration of (save interval, run length, thermalisation, probes, screening) plus Hypothesis-generated "
    "adaptive runs, each compared with an executable runner specification driven by the observed update history"
)
RULE = (
    "grid: save_every k in 1..N+2 x run length N in 0..Nmax (fixed dt, solve_time=(N-1/2)dt) x thermalisation {off,3 steps} x "
    "probe points {0,2,3} x screening {off,on}, all enumerated (Nmax=6 quick, 12 thorough); generated: adaptive runs with "
    "generated dt_init/dt_max/window/multiplier/retries, drives and k; non-trivial = N>=1 and >=2 frames; distinct by spec hash"
    "; derived views (dynamics.time, closest_solve_step, closest_time, voltage, phase_difference, mean_voltage) and exact screening-iteration counts are compared as well"
)
ASSUMPTIONS = [
    "the state after s updates is identified by a SHA-256 digest of the arrays returned by the s-th call of TDGLSolver.update "
    "on the solver instance the harness built (the same call tdgl.solve makes)",
    "an update whose result is never recorded (discarded) is not observable and not asserted on",
]
LEVEL_TEXT = (
    "The bounded core (k x N x thermalisation x probes x screening) is enumerated completely and every frame, label, time and "
    "per-step column of every run is compared with the specification; longer/adaptive histories are sampled with Hypothesis. "
    "Exploration with an exhaustively enumerated bounded core."
)
LEVEL_NOTE = (
    "Trusted: the harness's runner specification (written from the documentation), h5py for reading the file, digests as "
    "state identity.  Bounded: N <= 12 exhaustively, N up to ~150 sampled."
)


def budget(tier):
    if tier == "quick":
        return dict(max_examples=300, workers=8, time_s=170, min_cases=200)
    return dict(max_examples=8000, workers=16, time_s=1200, min_cases=300)


# ------------------------------------------------------------------ cases

BASE_DEVICE = dict(
    lu="um",
    layer=dict(xi=0.5, lam=2.0, d=0.05, gamma=10.0, u=5.79, z0=0.0),
    film=dict(kind="box", w=3.0, h=2.5, points=36, center=[0.0, 0.0]),
    holes=[],
    terminals=[
        dict(name="src", width=1.5, shape=dict(kind="box", w=0.25, h=1.5, points=16, center=[-1.5, 0.05])),
        dict(name="drn", width=1.5, shape=dict(kind="box", w=0.25, h=1.5, points=16, center=[1.5, -0.05])),
    ],
    mesh=dict(max_edge_length=0.45, min_points=None, smooth=0),
)
PROBES = {0: None, 2: [[-0.9, 0.3], [0.9, -0.3]], 3: [[-0.9, 0.3], [0.9, -0.3], [0.1, 0.8]]}


def _device(nprobes):
    d = dict(BASE_DEVICE)
    if PROBES[nprobes]:
        d["probes"] = PROBES[nprobes]
    return d


def grid(tier):
    nmax = 6 if tier == "quick" else 12
    cases = []
    for N in range(0, nmax + 1):
        for k in range(1, N + 3):
            for thermal in (0, 3):
                for npr in (0, 2, 3):
                    for scr in (False, True):
                        if npr == 2 and not scr:
                            # solve_time an exact multiple of a binary dt: the time *equals* the
                            # solve time at step N ("reaches" means >=)
                            cases.append(dict(
                                kind="grid-exact", device=_device(npr),
                                options=dict(dt_init=2.0 ** -9, solve_time=N * 2.0 ** -9, skip_time=thermal * 2.0 ** -9,
                                             save_every=k, adaptive=False, include_screening=False,
                                             field_units="mT", current_units="uA"),
                                field=dict(kind="constant", B=0.4), currents=None,
                            ))
                        cases.append(dict(
                            kind="grid", device=_device(npr),
                            options=dict(dt_c=0.2, nsteps=N, skip_steps=thermal, save_every=k, adaptive=False,
                                         include_screening=scr, screening_tolerance=1e-3, field_units="mT",
                                         current_units="uA"),
                            field=dict(kind="constant", B=0.4), currents=dict(kind="dict", quantum="1", mult={"src": 5, "drn": -5}),
                        ))
    return cases


@st.composite
def _adaptive_case(draw, tier):
    npr = draw(st.sampled_from([0, 2, 3]))
    scr = draw(st.integers(0, 3)) == 0
    # mostly time steps near the stability scale; one case in five uses very small ones (times of order 1e-12..1e-6),
    # where nothing may be confused with rounding: frame times are sums of the steps, whatever their size
    dt_c = draw(gen.logu(-3, 0)) if draw(st.integers(0, 4)) else draw(gen.logu(-11, -5))
    dtmax_c = dt_c * draw(st.sampled_from([1.0, 3.0, 10.0, 100.0, 1e4]))
    adaptive = draw(st.integers(0, 4)) > 0
    nominal = draw(st.integers(3, 40 if tier == "quick" else 150))
    opts = dict(
        dt_c=dt_c, dtmax_c=dtmax_c, adaptive=adaptive,
        adaptive_window=draw(st.integers(1, 10)),
        adaptive_time_step_multiplier=draw(gen.rf(0.1, 0.9)),
        max_solve_retries=draw(st.integers(0, 10)),
        save_every=draw(st.integers(1, nominal + 2)),
        include_screening=scr, screening_tolerance=1e-3,
        field_units="mT", current_units="uA",
        solve_steps_nominal=nominal,
        skip_steps=draw(st.sampled_from([0, 0, 2, 5])),
    )
    fld = draw(st.sampled_from([dict(kind="constant", B=0.4), dict(kind="zero"),
                                dict(kind="ramp", B=1.5, tmax=0.5), dict(kind="float", B=-0.8)]))
    cur = draw(st.sampled_from([None, dict(kind="dict", quantum="1", mult={"src": 5, "drn": -5}),
                                dict(kind="callable", quantum="0.1", mult={"src": 70, "drn": -70}, profile="ramp", t0=0.2)]))
    # the requested output name may already be taken by the result of an earlier, different run (the documented auto-rename)
    return dict(kind="generated", device=_device(npr), options=opts, field=fld, currents=cur, name_taken=draw(st.integers(0, 3)) == 0)


def strategy(tier):
    return _adaptive_case(tier)


# ------------------------------------------------------------------ specification


def expected_frames(calls, k, T):
    """Executable specification: frames of the recording stage from the update history.

    calls[s] = record of the s-th update of the recording stage (label, returned dt, digest).
    Returns (frames, N, problems) where frames = [(step, time, content_call_index, record_calls)]
    with content_call_index = index of the call whose *output* is the frame's state (-1: initial).
    """
    problems = []
    t = 0
    times = [t]
    for c in calls:
        t = t + c["dt"]
        times.append(t)
    # the run ends at the first step whose time reaches T
    N = next((s for s, ts in enumerate(times) if ts >= T), None)
    if N is None:
        problems.append(("C05.stopped_early", f"only {len(calls)} updates made; time {times[-1]!r} < solve_time {T!r}"))
        N = len(calls)
    steps = sorted(set(range(0, N + 1, k)) | {N})
    frames = []
    prev = 0
    for s in steps:
        recs = list(range(prev, s))
        frames.append((s, times[s], s - 1, recs))
        prev = s
    return frames, N, times, problems


def check_case(spec):
    from tdgl.solver.solver import TDGLSolver

    res = Result()
    dev = build.make_device(spec["device"])
    o = dict(spec["options"])
    nominal = o.pop("solve_steps_nominal", None)
    if nominal is not None:
        o["solve_time"] = (nominal - 0.5) * o["dt_c"] * build.stable_dt(dev)
    k = int(o["save_every"])
    with sim.workdir() as (cwd, tmp):
        if spec.get("name_taken"):
            res.label("output name taken by an earlier, different run")
            o_prev = dict(o, save_every=1, adaptive=False, include_screening=False, skip_steps=0)
            o_prev.pop("solve_time", None)
            o_prev["nsteps"] = 2
            build.make_solver(dev, build.make_options(o_prev, dev, output_file="out.h5"), applied_vector_potential=0.1, terminal_currents=None).solve()
        opts = build.make_options(o, dev, output_file="out.h5")
        T = opts.solve_time
        solver = build.make_solver(
            dev, opts,
            applied_vector_potential=build.make_vector_potential(spec["field"], dev, opts.field_units, opts.solve_time),
            terminal_currents=build.make_currents(spec["currents"]),
        )
        hist = sim.record_updates(solver)
        psi0 = np.array(solver.psi_init)
        try:
            sol = solver.solve()
        except RuntimeError as exc:
            if "failed to converge" in str(exc):
                res.label("run refused (documented non-convergence)")
                return res
            res.fail("C05.run_failed", f"solve() raised {type(exc).__name__}: {exc}")
            return res
        except Exception as exc:  # noqa: BLE001
            res.fail("C05.run_failed", f"solve() raised {type(exc).__name__}: {exc} (N={o.get('nsteps')}, k={k})")
            res.label("solve raised")
            return res
        frames, fixed = sim.read_frames(sol.path)
        sol_times = None if sol.times is None else np.array(sol.times)
        dyn = sol.dynamics
        dyn_dt = None if dyn is None else np.array(dyn.dt)
        dyn_mu = None if dyn is None or dyn.mu is None else np.array(dyn.mu)
        dyn_theta = None if dyn is None or dyn.theta is None else np.array(dyn.theta)
        dyn_iters = None if dyn is None or dyn.screening_iterations is None else np.array(dyn.screening_iterations)
        data_range = sol.data_range
        dyn_time = None if dyn is None else np.array(dyn.time)
        # derived views, queried at generated-looking times: every frame time, midpoints, slightly off, before and after the run
        closest, closest_dyn, probe_views = {}, {}, {}
        if sol_times is not None and len(sol_times) and dyn is not None and len(dyn.dt):
            tend = float(np.sum(dyn.dt))
            qs = sorted(set([-1.0, 0.0, 2.0 * tend + 1.0, 0.31 * tend, 0.77 * tend] + [float(t) for t in sol_times[:6]]
                            + [float(0.5 * (a + b)) * 1.001 for a, b in zip(sol_times[:5], sol_times[1:6])]))
            for q in qs:
                try:
                    closest[repr(q)] = int(sol.closest_solve_step(q))
                except Exception:  # noqa: BLE001
                    closest[repr(q)] = None
                try:
                    closest_dyn[repr(q)] = int(dyn.closest_time(q))
                except Exception:  # noqa: BLE001
                    closest_dyn[repr(q)] = None
            npr_ = 0 if dyn.mu is None else np.atleast_2d(dyn.mu).shape[0]
            if npr_ >= 2:
                pairs = [(0, 1), (1, 0)] + ([(0, 2), (2, 1)] if npr_ >= 3 else [])
                for (i, j) in pairs:
                    try:
                        v = np.array(dyn.voltage(i, j)); ph = np.array(dyn.phase_difference(i, j))
                    except Exception:  # noqa: BLE001
                        v = ph = None
                    mv = {}
                    for (tmin, tmax) in ((-np.inf, np.inf), (0.3 * tend, np.inf), (-np.inf, 0.6 * tend), (0.2 * tend, 0.8 * tend)):
                        try:
                            mv[(tmin, tmax)] = float(dyn.mean_voltage(i, j, tmin=tmin, tmax=tmax))
                        except Exception:  # noqa: BLE001
                            mv[(tmin, tmax)] = None
                    probe_views[(i, j)] = (v, ph, mv)
        # load every recorded step through the public API
        api_digests = []
        for j in range(len(frames)):
            try:
                sol.solve_step = j
                td = sol.tdgl_data
                api_digests.append(orc.digest(td.psi, td.mu, td.supercurrent, td.normal_current, td.induced_vector_potential))
            except Exception as exc:  # noqa: BLE001
                res.fail("C05.frame_not_loadable", f"solve_step={j}: {type(exc).__name__}: {exc}")
                api_digests.append(None)

    stages = hist.stage_split()
    thermal = int(o.get("skip_steps", 0) or 0) > 0 or float(o.get("skip_time", 0) or 0) > 0
    want_stages = 2 if thermal else 1
    if len(stages) == 0:
        rec_calls = []
    else:
        rec_calls = stages[-1] if len(stages) == want_stages else (stages[-1] if not thermal else [])
    if len(stages) > want_stages or (len(stages) < want_stages and not (T <= 0 and len(stages) == want_stages - 1)):
        res.fail("C05.stage_structure", f"{len(stages)} stage(s) of update calls, expected {want_stages}")
        return res
    if T <= 0 and len(stages) == want_stages - 1:
        rec_calls = []

    exp, N, times, problems = expected_frames(rec_calls, k, T)
    for c, d in problems:
        res.fail(c, d)
    # labels handed to update: (s, t_s), restarting from (0, 0.0) after thermalisation
    for s, c in enumerate(rec_calls):
        if c["step"] != s or c["time"] != times[s]:
            res.fail("C05.update_label", f"update {s} of the recording stage was labelled (step {c['step']}, time {c['time']!r}), expected ({s}, {times[s]!r})")
            break

    res.label(f"k={'1' if k == 1 else ('>N' if k > N else ('|N' if N % k == 0 else 'other'))}")
    res.label("thermalised" if thermal else "no thermalisation")
    res.label(f"probes={0 if spec['device'].get('probes') is None else len(spec['device']['probes'])}")
    res.label("screening" if o.get("include_screening") else "no screening")
    res.label("adaptive" if o.get("adaptive") else "fixed dt")
    if N == 0:
        res.label("N=0")
    if any(abs(c["dt"] - c["dt_in"]) > 0 for c in rec_calls[1:]) and o.get("adaptive"):
        res.label("dt varied")
    res.nontrivial = N >= 1 and len(exp) >= 2

    # ---- frames present
    got_steps = [int(fr["attrs"]["step"]) for fr in frames]
    exp_steps = [e[0] for e in exp]
    if got_steps != exp_steps:
        res.fail("C05.frame_steps", f"frames at steps {got_steps}, specification says {exp_steps} (N={N}, k={k})")
    if [fr["key"] for fr in frames] != list(range(len(frames))):
        res.fail("C05.frame_keys", f"frame groups are {[fr['key'] for fr in frames]}")
    if tuple(int(v) for v in data_range) != (0, len(frames) - 1):
        res.fail("C05.data_range", f"Solution.data_range={data_range} with {len(frames)} frames")

    by_step = {int(fr["attrs"]["step"]): (i, fr) for i, fr in enumerate(frames)}
    all_dt, all_mu, all_theta, all_it = [], [], [], []
    for s, t_s, ci, recs in exp:
        if s not in by_step:
            continue
        i, fr = by_step[s]
        # time label
        if float(fr["attrs"]["time"]) != float(t_s):
            res.fail("C05.frame_time", f"frame step {s} has time {float(fr['attrs']['time'])!r}, sum of the first {s} time steps is {float(t_s)!r}")
        # content = state after exactly s updates
        dg = sim.frame_digest(fr)
        if ci >= 0:
            want = rec_calls[ci]["digest"] if ci < len(rec_calls) else None
        else:
            want = rec_calls[0]["in_digest"] if rec_calls else None
        if want is not None and dg != want:
            # which update does it match?
            match = [j + 1 for j, c in enumerate(rec_calls) if c["digest"] == dg]
            res.fail("C05.frame_content", f"frame labelled step {s} does not hold the state after {s} updates"
                     + (f"; it holds the state after {match[0]} updates" if match else "") + f" (N={N}, k={k})")
        if want is None and s == 0:
            if thermal and stages and stages[0]:
                if dg != stages[0][-1]["digest"]:
                    res.fail("C05.frame_content", "frame 0 is not the state at the end of thermalisation")
            elif not np.array_equal(fr["psi"], psi0):
                res.fail("C05.frame_content", "frame 0 is not the initial state")
        if api_digests[i] is not None and api_digests[i] != dg:
            res.fail("C05.api_frame", f"Solution.solve_step={i} does not return the data of frame {i}")
        # per-step records
        cols = sim.running_columns(fr)
        if s == 0:
            if cols is not None and len(cols["dt"]):
                res.fail("C05.records", "frame 0 carries per-step records")
            continue
        if cols is None:
            res.fail("C05.records", f"frame step {s} has no per-step records, expected {len(recs)}")
            continue
        want_dt = np.array([rec_calls[j]["dt"] for j in recs])
        if len(cols["dt"]) != len(want_dt) or not np.array_equal(cols["dt"], want_dt):
            res.fail("C05.records_dt", f"frame step {s}: per-step dt record has {len(cols['dt'])} entries {cols['dt'][:6]}, "
                     f"specification says {len(want_dt)} entries {want_dt[:6]} (steps {recs[0] if recs else '-'}..{recs[-1] if recs else '-'})")
        all_dt.extend(want_dt.tolist())
        if spec["device"].get("probes"):
            wmu = np.array([rec_calls[j]["probe_mu"] for j in recs]).T
            wth = np.array([rec_calls[j]["probe_theta"] for j in recs]).T
            for name, want_arr, acc in (("mu", wmu, all_mu), ("theta", wth, all_theta)):
                got = cols.get(name)
                acc.append(want_arr)
                if got is None or np.shape(got) != want_arr.shape or not np.array_equal(got, want_arr):
                    res.fail(f"C05.records_{name}", f"frame step {s}: probe {name} record shape {np.shape(got)} vs expected {want_arr.shape} or values differ")
        if o.get("include_screening"):
            got = cols.get("screening_iterations")
            if got is None or len(np.atleast_1d(got)) != len(recs):
                res.fail("C05.records_screening", f"frame step {s}: screening iteration record has {None if got is None else len(np.atleast_1d(got))} entries, expected {len(recs)}")
            else:
                want_it = np.array([rec_calls[j]["screening_calls"] for j in recs])
                if not np.array_equal(np.atleast_1d(got).astype(int), want_it):
                    res.fail("C05.records_screening", f"frame step {s}: screening iteration record {np.atleast_1d(got)[:8]}, the updates of steps "
                             f"{recs[0]}..{recs[-1]} made {want_it[:8]} iterations")

    # ---- loaded solution
    exp_times = np.array([float(e[1]) for e in exp])
    if sol_times is None or len(sol_times) != len(exp_times) or not np.allclose(sol_times, exp_times, rtol=1e-12, atol=0):
        res.fail("C05.solution_times", f"Solution.times={None if sol_times is None else sol_times[:5]} but the frame times are {exp_times[:5]} ({len(exp_times)} frames)")
    want_all = np.array([c["dt"] for c in rec_calls[:N]])
    if dyn_dt is None or len(dyn_dt) != len(want_all) or not np.array_equal(dyn_dt, want_all):
        res.fail("C05.dynamics_dt", f"Solution.dynamics.dt has {None if dyn_dt is None else len(dyn_dt)} entries, the run made {len(want_all)} recorded steps")
    if spec["device"].get("probes") and N >= 1:
        wmu = np.array([c["probe_mu"] for c in rec_calls[:N]]).T
        wth = np.array([c["probe_theta"] for c in rec_calls[:N]]).T
        if dyn_mu is None or dyn_mu.shape != wmu.shape or not np.array_equal(dyn_mu, wmu):
            res.fail("C05.dynamics_mu", f"Solution.dynamics.mu shape {None if dyn_mu is None else dyn_mu.shape}, expected {wmu.shape} or values differ")
        if dyn_theta is None or dyn_theta.shape != wth.shape or not np.array_equal(dyn_theta, wth):
            res.fail("C05.dynamics_theta", f"Solution.dynamics.theta shape {None if dyn_theta is None else dyn_theta.shape}, expected {wth.shape}")
    if o.get("include_screening") and N >= 1:
        want_it = np.array([c["screening_calls"] for c in rec_calls[:N]])
        if dyn_iters is None or len(dyn_iters) != N:
            res.fail("C05.dynamics_screening", f"Solution.dynamics.screening_iterations has {None if dyn_iters is None else len(dyn_iters)} entries, expected {N}")
        elif not np.array_equal(np.asarray(dyn_iters).astype(int), want_it):
            res.fail("C05.dynamics_screening", f"Solution.dynamics.screening_iterations = {np.asarray(dyn_iters)[:8]}, the updates made {want_it[:8]} iterations")
    # ---- derived views of the per-step records and of the frame times (public API of the loaded solution)
    if N >= 1 and dyn_dt is not None and len(dyn_dt) == N:
        step_times = np.cumsum(want_all)  # time after each recorded step: "cumulative sum of the time step"
        if dyn_time is None or len(dyn_time) != N or not np.allclose(dyn_time, step_times, rtol=1e-12, atol=0):
            res.fail("C05.dynamics_time", f"Solution.dynamics.time = {None if dyn_time is None else dyn_time[:5]}, cumulative sum of the per-step dt is {step_times[:5]}")
        for q, got_i in closest.items():
            q = float(q)
            dist = np.abs(exp_times - q)
            if got_i is None or not (0 <= got_i < len(exp_times)) or dist[got_i] > dist.min() * (1 + 1e-9) + 1e-12 * abs(q):
                res.fail("C05.closest_solve_step", f"closest_solve_step({q!r}) = {got_i}, frame times are {exp_times[:8]} (closest is frame {int(np.argmin(dist))})")
        for q, got_i in closest_dyn.items():
            q = float(q)
            dist = np.abs(step_times - q)
            if got_i is None or not (0 <= got_i < N) or dist[got_i] > dist.min() * (1 + 1e-9) + 1e-12 * abs(q):
                res.fail("C05.closest_time", f"dynamics.closest_time({q!r}) = {got_i}, step times are {step_times[:8]}")
        if spec["device"].get("probes") and dyn_mu is not None and dyn_mu.shape == (len(spec["device"]["probes"]), N):
            wmu = np.array([c["probe_mu"] for c in rec_calls[:N]]).T
            wth = np.array([c["probe_theta"] for c in rec_calls[:N]]).T
            npr = wmu.shape[0]
            for (i, j), (v, ph, mv) in probe_views.items():
                if v is None or np.shape(v) != (N,) or not np.array_equal(v, wmu[i] - wmu[j]):
                    res.fail("C05.voltage", f"dynamics.voltage({i},{j}) is not mu_{i} - mu_{j} of the recorded steps")
                if ph is None or np.shape(ph) != (N,) or not np.array_equal(ph, wth[i] - wth[j]):
                    res.fail("C05.phase_difference", f"dynamics.phase_difference({i},{j}) is not theta_{i} - theta_{j} of the recorded steps")
                for (tmin, tmax), m in mv.items():
                    sel = (step_times >= tmin) & (step_times <= tmax)
                    if not sel.any():
                        continue
                    # whether a step exactly on a window bound belongs to the window is not stated anywhere: not asserted
                    if any(np.isfinite(b) and np.any(np.abs(step_times - b) <= 1e-9 * step_times[-1]) for b in (tmin, tmax)):
                        continue
                    w = float(np.sum((wmu[i] - wmu[j])[sel] * want_all[sel]) / np.sum(want_all[sel]))
                    sc = float(np.max(np.abs(wmu[i] - wmu[j])[sel])) + 1e-300
                    if m is None or not np.isfinite(m) or abs(m - w) > 1e-9 * sc:
                        res.fail("C05.mean_voltage", f"dynamics.mean_voltage({i},{j},{tmin!r},{tmax!r}) = {m!r}, dt-weighted mean of the recorded steps in the window is {w!r}")
    # thermalisation calls never recorded: guaranteed by the digests above (thermal outputs
    # differ from recording outputs) plus the label restart checked in C05.update_label
    if thermal and len(stages) == 2 and rec_calls and stages[0]:
        if rec_calls[0]["in_digest"] != stages[0][-1]["digest"] and T > 0:
            # with the stop test placed before the update the recording stage continues from the
            # last thermalisation state
            res.label("recording stage does not continue from the last thermalisation update")
    return res
