"""C19 - ill-posed problems are rejected before anything is written."""
import copy
import os

import numpy as np
from hypothesis import strategies as st

from .. import build, gen, sim
from ..engine import Result
from .c05 import BASE_DEVICE

PID = "C19"
TITLE = "Ill-posed problems are rejected before anything is written"
LEVEL = "exploration"
TECHNIQUE = "negative testing: an enumerated list of defect classes injected into fixed valid problems at several magnitudes (gross .. 1e-6), and into Hypothesis-generated valid problems at generated magnitudes; oracle: the call raises and the directory listings (cwd, output directory, TMPDIR) are unchanged"
RULE = (
    "enumerated: defect class (unbalanced dict / callable currents (always, after t0, on a window >= 25 % of the run), unknown terminal, epsilon > 1 "
    "(constant, callable), dt_init > dt_max, |terminal_psi| > 1, multiplier / drag / step / tolerance out of range, unknown solver, gpu without cupy, "
    "terminal touching no boundary, seed solution from a device differing in layer / film / terminals / mesh, vector potential of wrong shape, "
    "self-intersecting / multiply-connected polygons, unnamed film, duplicate names, probe point outside the film or in a hole) x magnitude "
    "{1, 1e-3, 1e-6} x 3 devices x output {None, file, file in a new sub-directory}; non-trivial = magnitude <= 1e-3 or a time-dependent defect; "
    "all classes appear in every run (histogram in the evidence); in addition generated problems: a generated device (box/ellipse, 2..3 terminals, 0..1 holes, any units), options (adaptive, screening, save interval), output mode and a defect class at a magnitude drawn log-uniformly from 1e-6..1, kept only if the same problem without the defect is accepted"
    "; defect class terminal_point_contact"
)
ASSUMPTIONS = [
    "rejection = any exception raised by the constructor / tdgl.solve call; acceptance = the call returns",
    "time-dependent currents are validated by the library at 100 random times, so only windows >= 25 % of solve_time are asserted (missed with probability < 1e-12); the narrow-window case is listed as a known finding",
    "each case runs in a private working directory and TMPDIR",
]
LEVEL_TEXT = "Every member of the enumerated class list is instantiated on several devices, magnitudes and output modes; both the rejection and the absence of any file-system effect are asserted."
LEVEL_NOTE = "Trusted: os.walk listings of private directories.  The class list is the property's; it is enumerated, not sampled; the problems the defects are injected into are both fixed and generated."

MAGS = [1.0, 1e-3, 1e-6]

DEVICES = {
    "bar2": BASE_DEVICE,
    "ellipse3": dict(
        lu="um", layer=dict(xi=0.5, lam=2.0, d=0.05, gamma=10.0, u=5.79, z0=0.0),
        film=dict(kind="ellipse", a=2.0, b=1.5, points=44, center=[0.0, 0.0]), holes=[],
        terminals=[dict(name="a", width=1.0, shape=dict(kind="box", w=0.4, h=1.0, points=16, center=[-2.0, 0.0])),
                   dict(name="b", width=1.0, shape=dict(kind="box", w=0.4, h=1.0, points=16, center=[2.0, 0.0])),
                   dict(name="c", width=1.0, shape=dict(kind="box", w=1.0, h=0.4, points=16, center=[0.0, 1.5]))],
        mesh=dict(max_edge_length=0.5, min_points=None, smooth=0)),
    "holed2": dict(
        lu="um", layer=dict(xi=0.5, lam=2.0, d=0.05, gamma=10.0, u=5.79, z0=0.0),
        film=dict(kind="box", w=4.0, h=3.0, points=44, center=[0.0, 0.0]),
        holes=[dict(kind="ellipse", a=0.5, b=0.4, points=16, center=[0.2, -0.1])],
        terminals=[dict(name="src", width=1.5, shape=dict(kind="box", w=0.25, h=1.5, points=16, center=[-2.0, 0.0])),
                   dict(name="drn", width=1.5, shape=dict(kind="box", w=0.25, h=1.5, points=16, center=[2.0, 0.0]))],
        probes=[[-1.2, 0.9], [1.2, -0.9]],
        mesh=dict(max_edge_length=0.5, min_points=None, smooth=0)),
}

CLASSES = [
    "currents_dict_unbalanced", "currents_callable_always", "currents_callable_after_t0", "currents_callable_window", "currents_callable_narrow_window",
    "unknown_terminal", "unknown_terminal_extra", "unknown_terminal_callable", "epsilon_constant", "epsilon_callable_somewhere", "epsilon_after_t0", "dt_init_gt_dt_max", "terminal_psi_gt_1",
    "multiplier_out_of_range", "drag_out_of_range", "step_size_nonpositive", "tolerance_nonpositive", "unknown_solver", "gpu_without_cupy",
    "terminal_off_boundary", "terminal_point_contact", "seed_other_layer", "seed_other_film", "seed_other_terminals", "seed_other_mesh", "vector_potential_shape",
    "polygon_self_intersecting", "polygon_multiply_connected", "film_unnamed", "duplicate_terminal_names", "duplicate_hole_names",
    "probe_outside_film", "probe_in_hole",
]
NO_MAG = {"unknown_terminal", "unknown_terminal_extra", "unknown_terminal_callable", "unknown_solver", "gpu_without_cupy", "seed_other_terminals", "seed_other_mesh",
          "vector_potential_shape", "polygon_self_intersecting", "polygon_multiply_connected", "film_unnamed", "duplicate_terminal_names",
          "duplicate_hole_names", "probe_in_hole", "currents_callable_narrow_window"}


VARIANT_CLASSES = {"terminal_point_contact", "terminal_psi_gt_1", "multiplier_out_of_range", "drag_out_of_range", "step_size_nonpositive", "tolerance_nonpositive",
                   "unknown_solver", "seed_other_layer", "seed_other_terminals", "vector_potential_shape", "polygon_multiply_connected",
                   "currents_callable_window"}


# classes that can be injected into any generated device (the others need a particular geometry and stay with the enumerated devices)
GEN_CLASSES = [c for c in CLASSES if c not in ("terminal_off_boundary", "terminal_point_contact", "currents_callable_narrow_window", "polygon_self_intersecting",
                                               "polygon_multiply_connected")]


def budget(tier):
    if tier == "quick":
        return dict(max_examples=240, workers=8, time_s=170, min_cases=300)
    return dict(max_examples=6000, workers=16, time_s=1200, min_cases=600)


@st.composite
def _generated(draw, tier):
    """A generated valid problem (device, options, output mode) with one defect class injected at a generated magnitude."""
    d = draw(gen.device(terminals=(2, 3), holes=(0, 1), probes=(0, 2), film_kinds=("box", "ellipse"), size=(3.5, 5.5),
                        lshape=False).filter(gen.valid_device))
    cls = draw(st.sampled_from(GEN_CLASSES))
    if cls in ("probe_in_hole", "duplicate_hole_names") and not d["holes"]:
        cls = draw(st.sampled_from(["duplicate_terminal_names", "currents_dict_unbalanced", "epsilon_constant"]))
    mag = 1.0 if cls in NO_MAG else draw(gen.logu(-6, 0))
    return dict(cls=cls, mag=mag, device=d, variant=draw(st.integers(0, 5)), output=draw(st.sampled_from(["none", "file", "subdir"])),
                adaptive=draw(st.booleans()), screening=draw(st.integers(0, 3)) == 0, save_every=draw(st.integers(1, 3)))


def strategy(tier):
    return _generated(tier)


def grid(tier):
    cases = []
    i = 0
    for cls in CLASSES:
        for mag in ([1.0] if cls in NO_MAG else MAGS):
            for dname in DEVICES:
                if cls in ("probe_in_hole", "duplicate_hole_names") and dname != "holed2":
                    continue
                if cls == "terminal_off_boundary" and dname == "ellipse3":
                    continue  # curved outline: a shifted box still meets the outline elsewhere, which is a valid problem
                if cls == "terminal_point_contact" and dname == "ellipse3":
                    continue  # needs a film corner
                variants = [0, 1, 2] if (tier != "quick" or cls in VARIANT_CLASSES) else [0]
                for v in variants:
                    i += 1
                    cases.append(dict(cls=cls, mag=mag, device=dname, variant=v, output=["none", "file", "subdir"][(i + v) % 3]))
    return cases


class _CannotInject(Exception):
    pass


def _listing(*roots):
    out = []
    for r in roots:
        for base, dirs, files in os.walk(r):
            for n in dirs + files:
                out.append(os.path.relpath(os.path.join(base, n), r) + ("/" if n in dirs else ""))
    return sorted(out)


def check_case(spec):
    import tdgl

    res = Result()
    cls, mag, v = spec["cls"], spec["mag"], spec["variant"]
    generated = not isinstance(spec["device"], str)
    dspec = copy.deepcopy(spec["device"] if generated else DEVICES[spec["device"]])
    names = [t["name"] for t in dspec["terminals"]]
    if generated:
        res.label(cls, f"mag~1e{int(np.floor(np.log10(mag)))}", f"output={spec['output']}", "generated device")
    else:
        res.label(cls, f"mag={mag:g}", f"output={spec['output']}", spec["device"])
    res.nontrivial = mag <= 1e-3 or cls.startswith("currents_callable")
    fc = build.make_polygon(dspec["film"], "film").points[:-1].mean(axis=0) if generated else np.array([0.3, 0.2])

    def base_options(out):
        o = dict(solve_time=0.05, dt_init=0.01, dt_max=0.02, adaptive=bool(v % 2), save_every=1, output_file=out, field_units="mT", current_units="uA",
                 pause_on_interrupt=False)
        if generated:
            o.update(adaptive=bool(spec["adaptive"]), save_every=int(spec["save_every"]), include_screening=bool(spec["screening"]))
        return o

    # drive of the valid problem: fixed numbers for the enumerated devices; for generated devices a field of 0.1 Bc2 and currents
    # of a few per cent of the depairing scale, in the units the options name
    iu, B0 = 1.0, 0.3
    if generated:
        from .. import oracles as orc

        L = dspec["layer"]
        sc = orc.si_scales(L["xi"], L["lam"], L["d"], dspec["lu"])
        wmin = min(t["width"] for t in dspec["terminals"]) * orc.LENGTH[dspec["lu"]]
        iu = float(f"{0.01 * (sc['K0'] / 4.0) * wmin / orc.CURRENT['uA']:.2g}")
        B0 = float(f"{0.1 * sc['Bc2'] / orc.FIELD['mT']:.3g}")

    def base_currents():
        return {names[0]: 5.0 * iu, names[1]: -5.0 * iu} if len(names) == 2 else {names[0]: 0.1 * iu, names[1]: 0.2 * iu, names[2]: -0.3 * iu}

    if generated:
        # the problem without the defect must be accepted, otherwise a rejection would prove nothing
        with sim.workdir():
            try:
                d0 = build.make_device_or_refuse(dspec)
                tdgl.solve(d0, tdgl.SolverOptions(**base_options(None)), applied_vector_potential=B0, terminal_currents=base_currents(),
                           disorder_epsilon=1.0)
            except build.LibraryRefused:
                raise
            except Exception as exc:  # noqa: BLE001
                res.label(f"discarded: the problem without the defect is not accepted ({type(exc).__name__})")
                res.nontrivial = False
                return res

    with sim.workdir() as (cwd, tmp):
        out = {"none": None, "file": "out.h5", "subdir": os.path.join("results", "new", "out.h5")}[spec["output"]]
        opt = base_options(out)
        cur = base_currents()
        big = max(abs(x) for x in cur.values())
        kw = dict(applied_vector_potential=B0, terminal_currents=dict(cur), disorder_epsilon=1.0, seed_solution=None)
        dev = None
        seed_files = []

        def device():
            return build.make_device(dspec, cache=False)

        # a seed solution (for the seed classes) is produced first, in memory, from the unmodified device
        def make_seed(ds):
            d0 = build.make_device(ds, cache=False)
            o0 = tdgl.SolverOptions(solve_time=0.03, dt_init=0.01, adaptive=False, save_every=1, output_file=None)
            return tdgl.solve(d0, o0, applied_vector_potential=B0)

        accepted = None
        stage = "solve"
        before = _listing(cwd, tmp)
        try:
            if cls == "currents_dict_unbalanced":
                kw["terminal_currents"][names[-1]] += mag * big
            elif cls.startswith("currents_callable"):
                T = opt["solve_time"]

                def currents(t, _cur=dict(cur), _mag=mag, _big=big, _cls=cls, _T=T, _n=names[-1], _v=v):
                    c = dict(_cur)
                    if _cls == "currents_callable_always":
                        bad = True
                    elif _cls == "currents_callable_after_t0":
                        bad = t >= 0.5 * _T
                    elif _cls == "currents_callable_window":
                        bad = (0.3 + 0.1 * _v) * _T <= t <= (0.6 + 0.1 * _v) * _T
                    else:
                        bad = abs(t - 0.5 * _T) < 1e-4 * _T
                    if bad:
                        c[_n] += _mag * _big
                    return c

                kw["terminal_currents"] = currents
            elif cls == "unknown_terminal":
                kw["terminal_currents"] = {names[0]: 1.0 * iu, "no_such_terminal": -1.0 * iu}
            elif cls == "unknown_terminal_extra":
                # the currents of the real terminals balance; a further, non-zero current is assigned to a name that is no terminal
                # (a misspelt third contact): the assignment as given does not balance and names a terminal that does not exist
                cur = dict(base_currents())
                cur["drian"] = 2.5 * iu
                kw["terminal_currents"] = cur
            elif cls == "unknown_terminal_callable":
                kw["terminal_currents"] = lambda t: {names[0]: 1.0 * iu, "nope": -1.0 * iu}
            elif cls == "epsilon_constant":
                kw["disorder_epsilon"] = 1.0 + mag
            elif cls == "epsilon_callable_somewhere":
                def eps(r, _m=mag, _c=fc):
                    x, y = r
                    return 1.0 + _m if (x > _c[0] and y > _c[1]) else 0.9

                kw["disorder_epsilon"] = eps
            elif cls == "epsilon_after_t0":
                # a time-dependent epsilon that is fine at t = 0 and exceeds 1 everywhere for the last 70 % of the run
                def eps_t(r, *, t, _m=mag, _t0=0.3 * opt["solve_time"]):
                    return 1.0 + _m if t > _t0 else 0.9

                kw["disorder_epsilon"] = eps_t
            elif cls == "dt_init_gt_dt_max":
                opt["dt_init"] = opt["dt_max"] * (1 + mag)
            elif cls == "terminal_psi_gt_1":
                opt["terminal_psi"] = [(1 + mag), -(1 + mag), (1 + mag) * (0.6 + 0.8j)][v % 3]
            elif cls == "multiplier_out_of_range":
                opt["adaptive_time_step_multiplier"] = [1.0 + (mag if mag < 1 else 0.0), -mag, 0.0][v % 3] if mag < 1 else [1.0, 0.0, 2.0][v % 3]
            elif cls == "drag_out_of_range":
                opt["screening_step_drag"] = [1.0 + mag, 0.0, -mag][v % 3]
            elif cls == "step_size_nonpositive":
                opt["screening_step_size"] = [0.0, -mag][v % 2]
            elif cls == "tolerance_nonpositive":
                opt["screening_tolerance"] = [0.0, -mag * 1e-3][v % 2]
            elif cls == "unknown_solver":
                opt["sparse_solver"] = ["magma", "cupy", "superlu2"][v % 3]
            elif cls == "gpu_without_cupy":
                opt["gpu"] = True
            elif cls == "terminal_off_boundary":
                # move the first terminal into the interior, leaving a gap of mag * (its thickness) to the outline
                # (straight film sides only: the terminal is moved along the normal of the side it sits on)
                t0 = dspec["terminals"][0]["shape"]
                thick = min(t0["w"], t0["h"])
                cx, cy = t0["center"]
                shift = (thick / 2) * (1 + mag)
                if t0["w"] < t0["h"]:
                    t0["center"] = [cx - np.sign(cx) * shift, cy]
                else:
                    t0["center"] = [cx, cy - np.sign(cy) * shift]
                kw["terminal_currents"] = None
            elif cls == "terminal_point_contact":
                # the first terminal shrinks to a point contact on a film corner: it contains one boundary vertex of the mesh
                # but no boundary edge, so it covers no boundary length and no current density can be assigned to it
                t0 = dspec["terminals"][0]["shape"]
                fw, fh = dspec["film"]["w"], dspec["film"]["h"]
                sgn = [(-1, -1), (-1, 1), (1, 1)][v % 3]
                size = 2e-2 * max(mag, 1e-4)
                t0.update(w=size, h=size, center=[sgn[0] * fw / 2, sgn[1] * fh / 2])
            elif cls.startswith("seed_other"):
                ds = copy.deepcopy(dspec)
                if cls == "seed_other_layer":
                    key = ["xi", "lam", "d", "gamma", "u"][v % 5] if mag < 1 else "lam"
                    # (a parameter that is exactly zero - gamma = 0 is legal - is changed additively: 0 * (1 + mag) is no change)
                    ds["layer"][key] = ds["layer"][key] * (1 + mag) if ds["layer"][key] != 0 else mag
                    if key == "xi":
                        ds["mesh"]["max_edge_length"] *= 1.0  # same target in length units
                elif cls == "seed_other_film":
                    for k in ("w", "h", "a", "b"):
                        if k in ds["film"]:
                            ds["film"][k] *= 1 + mag * 0.05
                elif cls == "seed_other_terminals" and v % 3 == 2:
                    # the two devices share one Mesh object (Device.copy() keeps it) and differ only in a terminal's name or in
                    # the probe points: still a different device
                    dseed = build.make_device(dspec, cache=False)
                    try:
                        kw["seed_solution"] = tdgl.solve(dseed, tdgl.SolverOptions(solve_time=0.03, dt_init=0.01, adaptive=False, save_every=1, output_file=None),
                                                         applied_vector_potential=B0)
                    except Exception as exc:  # noqa: BLE001
                        raise _CannotInject(f"{type(exc).__name__}: {exc}") from exc
                    dev = dseed.copy()
                    if v == 2 or dev.probe_points is None:
                        dev.terminals[0].name = "renamed"
                    else:
                        dev.probe_points = np.array(dev.probe_points)[::-1] * np.array([[1.0, 1.0]]) + 1e-3 * float(np.ptp(dseed.film.points[:, 0]))
                    assert dev.mesh is dseed.mesh and dev != dseed
                    ds = None
                elif cls == "seed_other_terminals":
                    if v % 2:
                        ds["terminals"] = ds["terminals"][:-1] if len(ds["terminals"]) > 2 else []
                    else:
                        ds["terminals"][0]["name"] = "renamed"
                else:
                    ds["mesh"]["max_edge_length"] *= 0.8
                try:
                    if ds is not None:
                        kw["seed_solution"] = make_seed(ds)
                except Exception as exc:  # noqa: BLE001  (the other device could not be simulated: nothing to inject)
                    raise _CannotInject(f"{type(exc).__name__}: {exc}") from exc
                if cls == "seed_other_mesh":
                    m0, m1 = build.make_device(dspec, cache=False).mesh, kw["seed_solution"].device.mesh
                    if m0.sites.shape == m1.sites.shape and np.array_equal(m0.sites, m1.sites) and np.array_equal(m0.elements, m1.elements):
                        raise _CannotInject("a smaller max_edge_length gave the identical mesh")
                kw["terminal_currents"] = None
            elif cls == "vector_potential_shape":
                def bad_A(x, y, z, _v=v):
                    n = len(np.atleast_1d(x))
                    return [np.zeros(n), np.zeros((n + 1, 3)), np.zeros((3, n)) if n != 3 else np.zeros((4, n))][_v % 3]

                kw["applied_vector_potential"] = tdgl.Parameter(bad_A)
            before = _listing(cwd, tmp)
            stage = "device"
            if cls == "polygon_self_intersecting":
                pts = np.array([[0, 0], [2, 2], [2, 0], [0, 2]], dtype=float) + v
                tdgl.Polygon("film", points=pts)
                accepted = "Polygon(bowtie)"
            elif cls == "polygon_multiply_connected":
                from shapely.geometry import Polygon as SP

                if v % 2 == 0:
                    tdgl.Polygon("film", points=SP([(0, 0), (4, 0), (4, 4), (0, 4)], holes=[[(1, 1), (2, 1), (2, 2), (1, 2)]]))
                    accepted = "Polygon(with interior ring)"
                else:
                    a = tdgl.Polygon("a", points=tdgl.geometry.box(1, 1, center=(0, 0)))
                    b = tdgl.Polygon("b", points=tdgl.geometry.box(1, 1, center=(5, 5)))
                    a.union(b)
                    accepted = "union of disjoint boxes"
            elif cls in ("film_unnamed", "duplicate_terminal_names", "duplicate_hole_names", "probe_outside_film", "probe_in_hole"):
                L = dspec["layer"]
                lay = tdgl.Layer(london_lambda=L["lam"], coherence_length=L["xi"], thickness=L["d"])
                film = build.make_polygon(dspec["film"], name=None if cls == "film_unnamed" else "film")
                holes = [build.make_polygon(h, name=f"hole{i}") for i, h in enumerate(dspec["holes"])]
                terms = [build.make_polygon(t["shape"], name=t["name"]) for t in dspec["terminals"]]
                probes = None
                if cls == "duplicate_terminal_names":
                    terms[1].name = terms[0].name
                if cls == "duplicate_hole_names":
                    holes = holes + [build.make_polygon(dict(kind="circle", r=0.2, points=12, center=[-1.0, 0.8]), name=holes[0].name)]
                if cls == "probe_outside_film":
                    xmax, xmin = film.points[:, 0].max(), film.points[:, 0].min()
                    ymid = 0.5 * (film.points[:, 1].max() + film.points[:, 1].min())
                    inside = list(dspec["probes"][0]) if dspec.get("probes") else list(film.points[:-1].mean(axis=0))
                    probes = [inside, [xmax + mag * (xmax - xmin) * 0.5 + 1e-9 * (xmax - xmin), ymid]]
                if cls == "probe_in_hole":
                    inside = list(dspec["probes"][0]) if dspec.get("probes") else [-1.0, 0.5]
                    probes = [inside, list(np.mean(holes[0].points[:-1], axis=0))]
                tdgl.Device("dev", layer=lay, film=film, holes=holes, terminals=terms, probe_points=probes, length_units=dspec.get("lu", "um"))
                accepted = f"Device({cls})"
            else:
                dev = dev if dev is not None else device()
                stage = "solve"
                before = _listing(cwd, tmp)
                options = tdgl.SolverOptions(**opt)
                sol = tdgl.solve(dev, options, **kw)
                accepted = "tdgl.solve returned " + type(sol).__name__
        except KeyboardInterrupt:
            raise
        except _CannotInject as exc:
            res.label("discarded: the defect could not be constructed")
            res.nontrivial = False
            return res
        except BaseException as exc:  # noqa: BLE001
            rejected_with = exc
        else:
            rejected_with = None
        after = _listing(cwd, tmp)

        if rejected_with is None:
            clause = "C19.narrow_window_accepted" if cls == "currents_callable_narrow_window" else "C19.accepted"
            res.fail(clause, f"{cls} (magnitude {mag:g}, device {spec['device']}, variant {v}): not rejected - {accepted}")
        else:
            res.label(f"rejected with {type(rejected_with).__name__}")
            if after != before:
                res.fail("C19.left_files", f"{cls} (magnitude {mag:g}): rejected with {type(rejected_with).__name__}: {str(rejected_with)[:120]} "
                         f"but the file system changed: new entries {sorted(set(after) - set(before))}")
    return res
