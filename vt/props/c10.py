"""C10 - refreshing link variables in place equals rebuilding the operators (histories)."""
import numpy as np
from hypothesis import strategies as st

from .. import build, gen, meshgen
from ..engine import Result

PID = "C10"
TITLE = "Refreshing link variables in place equals rebuilding the operators"
LEVEL = "exploration"
TECHNIQUE = "model-based testing over generated operation sequences: after every set_link_exponents the in-place operators are compared with a fresh MeshOperators built only from the latest vector potential (reference model = rebuild)"
RULE = (
    "history = generated mesh x pinned-site set {none, terminal sites, arbitrary sites} x fix_psi on/off x sequence of 1..6 "
    "(thorough 1..12) vector potentials drawn from {new smooth field, repeat of the previous one, zeros, scaled previous}; "
    "the invariant is checked after every operation; a second family drives real TDGLSolver.update calls (screening / "
    "time-dependent field, optionally starting from a non-zero induced potential as a seeded run does) and compares solver.operators with a rebuild after every step and the potential in use at every screening iteration; non-trivial = >= 2 distinct potentials and a "
    "non-empty pinned set; distinct by spec hash"
    "; the potential may be handed over as one buffer overwritten in place"
)
ASSUMPTIONS = [
    "dense comparison of matrices (values and sparsity pattern after eliminating explicit zeros) on meshes <= 600 sites",
    "the reference is the library's own from-scratch construction path (first call of set_link_exponents on a fresh MeshOperators), "
    "whose correctness is the subject of C03/C04",
]
LEVEL_TEXT = (
    "Histories of vector-potential updates are generated and the refresh-vs-rebuild invariant is evaluated after every step, "
    "including pinned rows; shrinking acts on the operation list.  Exploration over histories (stateful/model-based)."
)
LEVEL_NOTE = "Trusted: the from-scratch builders as reference; tolerance 1e-14 absolute on O(1..1e3) entries scaled by max|entry|."


def budget(tier):
    if tier == "quick":
        return dict(max_examples=900, workers=8, time_s=170, min_cases=200)
    return dict(max_examples=50000, workers=16, time_s=1200, min_cases=400)


@st.composite
def _ops_case(draw, tier):
    maxlen = 6 if tier == "quick" else 12
    nops = draw(st.integers(1, maxlen))
    ops = []
    for i in range(nops):
        kind = draw(st.sampled_from(["new", "new", "new", "repeat", "zeros", "scaled"])) if i else draw(st.sampled_from(["new", "zeros"]))
        op = dict(kind=kind)
        if kind == "new":
            op["A"] = draw(meshgen.field_coefs(2))
            op["scale"] = draw(gen.rf(0.05, 4.0))
        elif kind == "scaled":
            op["factor"] = draw(gen.rf(-2.0, 2.0))
        ops.append(op)
    return dict(kind="operators", mesh=draw(meshgen.mesh_spec(tier)), pinned=draw(st.sampled_from(["none", "terminals", "arbitrary", "arbitrary"])),
                pin_seed=[draw(st.integers(0, 10 ** 6)) for _ in range(6)], fix_psi=draw(st.booleans()) or draw(st.booleans()), ops=ops,
                # how the caller hands the potential over: a new array per call, or one buffer that is overwritten in place
                # and passed again (as a caller that accumulates applied + induced into a preallocated array does)
                handover=draw(st.sampled_from(["fresh", "fresh", "buffer"])))


@st.composite
def _solver_case(draw, tier):
    scr = draw(st.booleans())
    dev = draw(gen.device(terminals=(0, 3), holes=(0, 1), probes=(0,), film_kinds=("box", "ellipse"), size=(3.5, 5.5),
                          screening=scr, lshape=False).filter(gen.valid_device))
    fu = draw(st.sampled_from(gen.FIELD_UNITS))
    cu = draw(st.sampled_from(gen.CURRENT_UNITS))
    fld = draw(gen.field(dev, fu, kinds=("ramp", "ramp", "constant", "ramp_gauge"), bmax=0.3 if scr else 0.5))
    # the first update may start from a non-zero induced potential, as a run seeded with a screened solution does
    ind0 = dict(coefs=draw(meshgen.field_coefs(2)), amp=draw(gen.logu(-4, -1))) if scr and draw(st.booleans()) else None
    return dict(kind="solver", device=dev, field=fld, currents=draw(gen.currents(dev, cu, kinds=("dict",))), induced0=ind0,
                options=dict(dt_c=draw(gen.rf(0.05, 0.4)), adaptive=False, include_screening=scr, screening_tolerance=1e-3,
                             field_units=fu, current_units=cu, nsteps=draw(st.integers(2, 6)), save_every=1,
                             terminal_psi=draw(st.sampled_from([0.0, 0.0, None]))))


def strategy(tier):
    return st.one_of(_ops_case(tier), _ops_case(tier), _solver_case(tier))


def _dense(m):
    m = m.copy()
    if hasattr(m, "eliminate_zeros"):
        m = m.tocsr()
        m.eliminate_zeros()
    return m.toarray(), m


def _compare(res, live, fresh, step, what):
    import scipy.sparse as sp

    for name in ("psi_gradient", "psi_laplacian"):
        a, b = getattr(live, name), getattr(fresh, name)
        if a.shape != b.shape:
            res.fail(f"C10.{what}.{name}", f"shape {a.shape} vs rebuild {b.shape} after operation {step}")
            continue
        da, db = a.toarray(), b.toarray()
        scale = max(np.abs(db).max(), 1e-300)
        err = np.abs(da - db).max() / scale
        res.stat(f"{name}_diff", err)
        if err > 1e-13:
            i, j = np.unravel_index(np.argmax(np.abs(da - db)), da.shape)
            res.fail(f"C10.{what}.{name}", f"after operation {step}: entry ({i},{j}) is {da[i, j]:.6g} in place but {db[i, j]:.6g} when rebuilt from the latest potential")
        # sparsity pattern (explicit zeros removed): refresh must not add or lose couplings
        pa = sp.csr_matrix(a)
        pb = sp.csr_matrix(b)
        pa.eliminate_zeros()
        pb.eliminate_zeros()
        if pa.nnz != pb.nnz or (abs(pa) > 0).astype(int).toarray().tolist() != (abs(pb) > 0).astype(int).toarray().tolist():
            res.fail(f"C10.{what}.{name}_pattern", f"after operation {step}: sparsity pattern differs from the rebuild ({pa.nnz} vs {pb.nnz} non-zeros)")


def check_case(spec):
    from tdgl.finite_volume.operators import MeshOperators
    from tdgl.solver.options import SparseSolver

    res = Result()
    if spec["kind"] == "solver":
        return _check_solver(spec, res)
    mesh, info = meshgen.make_mesh(spec["mesh"])
    if mesh is None:
        res.label(f"discarded: {info}")
        return res
    n = len(mesh.sites)
    em = mesh.edge_mesh
    # pinned sites
    if spec["pinned"] == "none":
        fixed = np.array([], dtype=np.int64)
    elif spec["pinned"] == "terminals" and info.get("device") is not None and info["device"].terminals:
        fixed = np.concatenate([t.site_indices for t in info["device"].terminal_info()]).astype(np.int64)
    else:
        fixed = np.unique(np.array([s % n for s in spec["pin_seed"]], dtype=np.int64))
    fix_psi = bool(spec["fix_psi"])
    res.label(f"pinned={'none' if len(fixed) == 0 else spec['pinned']}", f"fix_psi={fix_psi}", f"src={info['src']}",
              f"handover={spec.get('handover', 'fresh')}")

    # (build_operators() only concerns the potential-independent mu operators and is not needed here)
    live = MeshOperators(mesh, SparseSolver.SUPERLU, fixed_sites=fixed, fix_psi=fix_psi)
    prev = None
    distinct = []
    for step, op in enumerate(spec["ops"]):
        if op["kind"] == "new":
            A = np.stack([meshgen.make_field(op["A"][0], em.centers), meshgen.make_field(op["A"][1], em.centers)], axis=1) * op["scale"]
        elif op["kind"] == "zeros":
            A = np.zeros((len(em.edges), 2))
        elif op["kind"] == "repeat":
            A = prev.copy()
        else:
            A = prev * op["factor"]
        if spec.get("handover") == "buffer":
            if step == 0:
                buf = np.empty_like(A)
            buf[...] = A
            live.set_link_exponents(buf)
        else:
            live.set_link_exponents(A)
        prev = A
        if not any(np.array_equal(A, d) for d in distinct):
            distinct.append(A)
        fresh = MeshOperators(mesh, SparseSolver.SUPERLU, fixed_sites=fixed, fix_psi=fix_psi)
        fresh.set_link_exponents(A.copy())
        _compare(res, live, fresh, step, "history")
        if not np.array_equal(np.asarray(live.link_exponents), A):
            res.fail("C10.history.link_exponents", f"link_exponents attribute is not the latest potential after operation {step}")
        # pinned rows are identity rows (fix_psi) or ordinary rows (otherwise), whatever the history
        if len(fixed) and fix_psi:
            rows = live.psi_laplacian.toarray()[fixed]
            ident = np.zeros_like(rows)
            ident[np.arange(len(fixed)), fixed] = 1
            if np.abs(rows - ident).max() > 0:
                res.fail("C10.history.pinned_rows", f"pinned Laplacian rows are not identity rows after operation {step}")
        if res.violations:
            break
    res.label(f"ops={len(spec['ops'])}", f"distinct_A={min(len(distinct), 3)}")
    res.nontrivial = len(distinct) >= 2 and len(fixed) > 0
    return res


def _check_solver(spec, res):
    """After n real update calls (screening iterations / time-dependent field) the solver's operators equal a rebuild."""
    import tdgl
    from tdgl.finite_volume.operators import MeshOperators
    from tdgl.solver.runner import RunningState

    dev = build.make_device_or_refuse(spec["device"])
    opts = build.make_options(spec["options"], dev)
    res.label("solver history", "screening" if opts.include_screening else "time-dependent field only")
    solver = build.make_solver(dev, opts, applied_vector_potential=build.make_vector_potential(spec["field"], dev, opts.field_units, opts.solve_time),
                             terminal_currents=build.make_currents(spec["currents"]))
    fixed = solver.operators.fixed_sites
    names = {"dt": 1}
    if opts.include_screening:
        names["screening_iterations"] = 1
    rs = RunningState(names, 1)
    ne = solver.num_edges
    vals = dict(psi=solver.psi_init, mu=solver.mu_init, supercurrent=np.zeros(ne), normal_current=np.zeros(ne),
                induced_vector_potential=np.zeros((ne, 2)))
    if solver.dynamic_vector_potential:
        vals["applied_vector_potential"] = solver.current_A_applied
    if spec.get("induced0") and opts.include_screening:
        c = spec["induced0"]
        ec = dev.mesh.edge_mesh.centers
        vals["induced_vector_potential"] = float(c["amp"]) * np.stack([meshgen.make_field(c["coefs"][0], ec), meshgen.make_field(c["coefs"][1], ec)], axis=1)
        res.label("starts from a non-zero induced potential")
    t = 0.0
    dt = opts.dt_init
    seen = []
    iterates = []
    stale = []
    orig_giv = solver.get_induced_vector_potential

    def giv(current_density, A_induced_vals, velocity):
        # the iterate the operators were refreshed with in this screening iteration
        iterates.append(np.array(A_induced_vals[-1]))
        # ... and the operators this iteration's psi and currents were computed with must be the ones for that iterate
        in_use = np.array(solver.operators.link_exponents)
        want_now = np.array(solver.current_A_applied) + iterates[-1]
        d = float(np.abs(in_use - want_now).max())
        if d > 1e-14 * max(1.0, float(np.abs(want_now).max())):
            stale.append((len(iterates) - 1, d))
        return orig_giv(current_density, A_induced_vals, velocity)

    solver.get_induced_vector_potential = giv
    for step in range(int(spec["options"]["nsteps"])):
        state = dict(step=step, time=t, dt=dt)
        rs.clear()
        try:
            out = solver.update(state, rs, dt, **vals)
        except RuntimeError as exc:
            if "converge" in str(exc):
                res.label("documented non-convergence")
                break
            raise
        dt = out.dt
        t += dt
        vals.update(psi=out.psi, mu=out.mu, supercurrent=out.supercurrent, normal_current=out.normal_current,
                    induced_vector_potential=out.A_induced)
        if solver.dynamic_vector_potential:
            vals["applied_vector_potential"] = out.A_applied
        A = np.array(solver.operators.link_exponents)
        if not any(np.array_equal(A, s) for s in seen):
            seen.append(A)
        fresh = MeshOperators(dev.mesh, opts.sparse_solver, fixed_sites=fixed, fix_psi=(opts.terminal_psi is not None))
        fresh.set_link_exponents(A.copy())
        _compare(res, solver.operators, fresh, step, "solver")
        # the link exponents in use are the potentials of this step: applied (+ induced of the last iteration)
        want = np.array(solver.current_A_applied)
        if opts.include_screening and iterates:
            want = want + iterates[-1]
            res.label("screening iterations>=3" if len(iterates) >= 3 else "screening iterations<3")
        iterates.clear()
        if stale:
            res.fail("C10.solver.stale_iteration", f"step {step}, screening iteration {stale[0][0]}: the operators in use differ from those of the current applied + induced "
                     f"iterate by {stale[0][1]:.3e}")
        if np.abs(A - want).max() > 1e-14 * max(1.0, np.abs(want).max()):
            res.fail("C10.solver.stale_potential", f"step {step}: operators use a potential that differs from the current applied (+ latest induced iterate) potential by {np.abs(A - want).max():.3e}")
        if res.violations:
            break
    res.nontrivial = len(seen) >= 2 and len(fixed) > 0
    res.label(f"distinct_A={min(len(seen), 3)}")
    return res
