"""C12 - time steps follow the documented adaptive rule and its bounds.

Model-based: the harness builds a TDGLSolver and drives the documented ``update`` method itself,
step by step, with the labels the runner would give.  A reference model of the adaptive rule
(window mean, proposal, retry chain, exhaustion) is advanced in lock-step from the returned states.
"""
import numpy as np
from hypothesis import strategies as st

from .. import build, gen
from ..engine import Result

PID = "C12"
TITLE = "Time steps follow the documented adaptive rule and its bounds"
LEVEL = "exploration"
TECHNIQUE = "model-based testing of call histories: reference model of the documented adaptive rule and retry loop advanced in lock-step with TDGLSolver.update; refusals cross-checked with the public solve_for_psi_squared"
RULE = (
    "history = generated device/drive (mild .. violent: dt up to 50x the explicit stability scale) x (dt_init, dt_max, window 1..10, "
    "multiplier in (0,1), max retries 0..10) x adaptive on/off x screening on/off, 10..80 update calls driven by the harness, optionally with one restart of the step counter and clock (as after a thermalisation stage; during the new warm-up window only the bounds are asserted); "
    "non-trivial = the history contains a post-window proposal different from dt_max and dt_init; distinct by spec hash"
    "; terminal_psi in {0, None, 1, 0.6+0.3j}"
)
ASSUMPTIONS = [
    "the retry count allowed is the documented pseudo-code's: the error is raised when the counter exceeds the maximum, i.e. after max_retries+2 refused attempts",
    "dt_max <= 1e8 dt_init so that the implementation's 1e-10 floor on the window mean cannot be told apart from the documented formula",
    "refusal of individual attempts is cross-checked only without screening and with a static applied field (operators constant during the step)",
]
LEVEL_TEXT = (
    "Each generated history checks every step of the run against the model (the proposal depends on the whole window history); "
    "Hypothesis varies settings and drive strength so that quiet phases, retries and retry exhaustion all occur."
)
LEVEL_NOTE = "Trusted: the harness's model of the documented rule; proposals compared to 1e-9 relative, retry chains by the same float multiplications."


def budget(tier):
    if tier == "quick":
        return dict(max_examples=600, workers=8, time_s=170, min_cases=150)
    return dict(max_examples=16000, workers=16, time_s=1200, min_cases=300)


@st.composite
def _case(draw, tier):
    scr = draw(st.integers(0, 5)) == 0
    dev = draw(gen.device(terminals=(0, 3), holes=(0, 1), probes=(0,), film_kinds=("box", "ellipse"), size=(3.5, 5.5),
                          screening=scr, lshape=False).filter(gen.valid_device))
    fu = draw(st.sampled_from(gen.FIELD_UNITS))
    cu = draw(st.sampled_from(gen.CURRENT_UNITS))
    fld = draw(gen.field(dev, fu, kinds=("constant", "float", "zero", "ramp"), bmax=0.25 if scr else 1.5))
    cur = draw(gen.currents(dev, cu, kinds=("dict",), jmax=1.5))
    dt_c = draw(st.one_of(gen.logu(-3, 0), gen.logu(0, 2).map(lambda v: min(v, 50.0))))
    ratio = draw(st.sampled_from([1.0, 2.0, 10.0, 1e3, 1e6]))
    return dict(device=dev, field=fld, currents=cur,
                options=dict(dt_c=dt_c, dtmax_c=dt_c * ratio, adaptive=draw(st.integers(0, 4)) > 0,
                             adaptive_window=draw(st.integers(1, 10)), adaptive_time_step_multiplier=draw(gen.rf(0.05, 0.95)),
                             max_solve_retries=draw(st.integers(0, 10)), include_screening=scr, screening_tolerance=1e-3,
                             field_units=fu, current_units=cu, solve_time=1.0, terminal_psi=draw(st.sampled_from([0.0, 0.0, None, None, 1.0, [0.6, 0.3]]))),
                ncalls=draw(st.integers(10, 40 if tier == "quick" else 80)),
                # optionally the step counter and the clock restart once, as they do after a thermalisation stage
                # (the harness's loop plays the part of the documented runner); 0 = a single stage
                restart_frac=draw(st.sampled_from([0.0, 0.0, 0.2, 0.4, 0.6])))


def strategy(tier):
    return _case(tier)


def check_case(spec):
    from tdgl.solver.runner import RunningState
    from tdgl.solver.solver import TDGLSolver

    res = Result()
    dev = build.make_device_or_refuse(spec["device"])
    opts = build.make_options(spec["options"], dev)
    try:
        solver = build.make_solver(dev, opts, applied_vector_potential=build.make_vector_potential(spec["field"], dev, opts.field_units, opts.solve_time),
                                   terminal_currents=build.make_currents(spec["currents"]))
    except ValueError as exc:
        if "does not contain any points" in str(exc):
            res.label("discarded: terminal without boundary sites")
            return res
        raise
    pinned_value = opts.terminal_psi is not None and opts.terminal_psi != 0 and bool(dev.terminals)
    pinned_sites = np.concatenate([t.site_indices for t in dev.terminal_info()]).astype(int) if pinned_value else None
    if pinned_value:
        res.label("terminals held at a non-zero value")
    adaptive = bool(opts.adaptive)
    W, M, R = int(opts.adaptive_window), float(opts.adaptive_time_step_multiplier), int(opts.max_solve_retries)
    dt_init, dt_max = float(opts.dt_init), float(opts.dt_max)
    scr = bool(opts.include_screening)
    static_ops = (not scr) and (not solver.dynamic_vector_potential)
    res.label("adaptive" if adaptive else "adaptive off", "screening" if scr else "no screening",
              f"dt/stability={'<1' if spec['options']['dt_c'] < 1 else '>=1'}")

    names = {"dt": 1}
    if scr:
        names["screening_iterations"] = 1
    rs = RunningState(names, 1)
    ne = solver.num_edges
    vals = dict(psi=np.array(solver.psi_init), mu=np.array(solver.mu_init), supercurrent=np.zeros(ne), normal_current=np.zeros(ne),
                induced_vector_potential=np.zeros((ne, 2)))
    if solver.dynamic_vector_potential:
        vals["applied_vector_potential"] = solver.current_A_applied

    def attempt_refused(dt_try):
        out = TDGLSolver.solve_for_psi_squared(psi=vals["psi"], abs_sq_psi=np.absolute(vals["psi"]) ** 2, mu=vals["mu"],
                                               epsilon=solver.epsilon, gamma=solver.gamma, u=solver.u, dt=dt_try,
                                               psi_laplacian=solver.operators.psi_laplacian)
        return out is None

    t = 0.0
    dt_prev = dt_init
    proposal = dt_init  # model state
    tol_rel = 1e-12  # relative tolerance on the current proposal (see below)
    deltas = []
    saw_postwindow = False
    ncalls = int(spec["ncalls"])
    restart_at = int(round(float(spec.get("restart_frac", 0.0)) * ncalls)) or None
    stage, s = 0, -1
    synced = True  # False during the warm-up window of a later stage, where the property prescribes no proposal
    if restart_at:
        res.label("two stages (step counter and clock restart once)")
    for call in range(ncalls):
        s += 1
        if restart_at and call == restart_at:
            stage, s, t, synced = 1, 0, 0.0, False
        state = dict(step=s, time=t, dt=dt_prev)
        rs.clear()
        psi_before = vals["psi"]
        # what the model allows for this call
        chain = [proposal]
        # Without screening one Euler update per step: at most max_retries+1 reductions.  With screening the
        # documented algorithm calls the adaptive Euler update once per screening iteration, each with its own
        # retry allowance, carrying dt over, so the total number of reductions is bounded by the iteration count.
        max_red = (R + 1) if not scr else (R + 1) * (int(opts.max_iterations_per_step) + 2)
        for _ in range(min(max_red, 400)):
            chain.append(chain[-1] * M)
            if chain[-1] < 1e-300:
                break
        refused = None
        if static_ops and synced:
            refused = []
            for a in (chain[: R + 2] if adaptive else chain[:1]):
                refused.append(attempt_refused(a))
                if not refused[-1]:
                    break
        try:
            out = solver.update(state, rs, dt_prev, **vals)
        except RuntimeError as exc:
            msg = str(exc)
            if "Screening calculation failed" in msg:
                res.label("screening non-convergence")
                break
            if "Solver failed to converge" not in msg:
                raise
            res.label("retry exhaustion")
            if refused is not None and not all(refused):
                j = refused.index(False)
                res.fail("C12.exhaustion", f"step {s}: error raised although attempt {j} (dt={chain[j]:.3e}) is accepted by solve_for_psi_squared")
            if refused is not None and adaptive and len(refused) < R + 2:
                res.fail("C12.exhaustion", f"step {s}: gave up after fewer than max_retries+2={R + 2} attempts")
            break
        dt_s = float(out.dt)
        # ---- bounds
        if not (dt_s > 0) or not np.isfinite(dt_s):
            res.fail("C12.positive", f"step {s}: dt={dt_s!r}")
            break
        if adaptive and dt_s > dt_max * (1 + 1e-12):
            res.fail("C12.bound", f"step {s}: dt={dt_s!r} exceeds dt_max={dt_max!r}")
            break
        if not adaptive and dt_s != dt_init:
            res.fail("C12.fixed", f"step {s}: adaptive off but dt={dt_s!r} != dt_init={dt_init!r}")
            break
        # ---- the step is the proposal times multiplier^r
        r = next((j for j, a in enumerate(chain) if abs(dt_s - a) <= tol_rel * dt_s), None)
        if not synced:
            r, refused = None, None
        elif r is None:
            res.fail("C12.rule", f"step {s}: dt={dt_s:.12e} is not proposal*multiplier^r for r in 0..{len(chain) - 1}; model proposal {proposal:.12e} "
                     f"(window={W}, multiplier={M}, dt_init={dt_init:.3e}, dt_max={dt_max:.3e}, last deltas {deltas[-W:]})")
            break
        if r:
            res.label("retries>0")
        if refused is not None:
            want_r = refused.index(False) if False in refused else None
            if want_r is None:
                res.fail("C12.retry", f"step {s}: update answered with dt={dt_s:.3e} although every attempt of the chain is refused by solve_for_psi_squared")
                break
            if want_r != r:
                res.fail("C12.retry", f"step {s}: update used retry {r} (dt={dt_s:.3e}) but the first attempt accepted by solve_for_psi_squared is {want_r} (dt={chain[want_r]:.3e})")
                break
        # ---- advance the model
        new_sq = np.absolute(np.array(out.psi)) ** 2
        old_sq = np.absolute(psi_before) ** 2
        if adaptive:
            if static_ops:
                # the reported |psi'|^2 of the accepted attempt, bit for bit, through the public static method
                x = TDGLSolver.solve_for_psi_squared(psi=psi_before, abs_sq_psi=old_sq, mu=vals["mu"], epsilon=solver.epsilon,
                                                     gamma=solver.gamma, u=solver.u, dt=dt_s,
                                                     psi_laplacian=solver.operators.psi_laplacian)[1]
                derr = 0.0
                if pinned_value:
                    # sites held at a non-zero terminal value do not change: the change of |psi|^2 there is that of the
                    # state returned (zero up to one rounding of |v|^2), not that of the intermediate Euler result
                    x = np.array(x)
                    x[pinned_sites] = new_sq[pinned_sites]
                    derr = 1e-15
                deltas.append(float(np.max(np.abs(x - old_sq))))
            else:
                # |psi'|^2 recomputed from psi' differs from the reported one by rounding amplified by gamma^2
                deltas.append(float(np.max(np.abs(new_sq - old_sq))))
                derr = 1e-11 * (1 + solver.gamma ** 2)
            if s > W:
                synced = True
                delta = float(np.mean(deltas[-W:]))
                new_dt = dt_init / max(delta, 1e-10)
                proposal = min(0.5 * (new_dt + dt_s), dt_max)
                tol_rel = 1e-12 + derr / max(delta, 1e-10)
                if proposal != dt_max and abs(proposal - dt_init) > 1e-12 * dt_init:
                    saw_postwindow = True
                    if stage:
                        res.label("post-window proposal checked in the second stage")
            else:
                proposal = proposal if (s or stage) else dt_init
        dt_prev = dt_s
        t += dt_s
        vals.update(psi=np.array(out.psi), mu=np.array(out.mu), supercurrent=out.supercurrent, normal_current=out.normal_current,
                    induced_vector_potential=out.A_induced)
        if solver.dynamic_vector_potential:
            vals["applied_vector_potential"] = out.A_applied
        if not np.all(np.isfinite(vals["psi"])):
            res.label("state became non-finite (unstable dt)")
            break
    res.nontrivial = saw_postwindow
    if saw_postwindow:
        res.label("post-window proposal strictly between")
    return res
