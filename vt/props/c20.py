"""C20 - fields and potentials computed from currents are linear and correct."""
import math

import numpy as np
from hypothesis import strategies as st
from scipy import integrate

from .. import build, gen, sim
from .. import oracles as orc
from ..engine import Result

PID = "C20"
TITLE = "Fields and potentials computed from currents are linear and correct"
LEVEL = "exploration"
TECHNIQUE = "differential oracles on generated inputs: numpy Biot-Savart / Coulomb-kernel sums in SI units, scipy quadrature of the loop line integral, algebraic laws (linearity, scalar = z-component, sum of parts) and unit-conversion round trips"
RULE = (
    "case kinds: biot_savart_2d on generated sheet currents (5..60 elements, areas given or None, z0, evaluation points off the plane, 9 unit "
    "combinations, scalar and vector); current_loop_vector_potential on generated radii/centres/points vs quadrature; convert_field round trips; "
    "cdist vs numpy; Solution.field_at_position / vector_potential_at_position on short generated solutions (static and time-dependent applied "
    "potential, any recorded step, optionally preceded by another evaluation on the same Solution at the same (x, y) and a different height or at other points); non-trivial = >= 10 current elements and >= 3 evaluation points with |B| above 1e-3 of its maximum; distinct by spec hash"
    "; solution cases in um/nm x uA/nA/mA/A with weak drives; scans with a prime number (> 2^22 / sites) of positions in one call"
)
ASSUMPTIONS = [
    "mu_0 from scipy.constants; lengths/currents converted by an explicit table",
    "evaluation points are kept off the film plane / off the loop wire by construction (|dz| >= 0.05 sizes)",
    "areas=None is compared with the Voronoi areas of the Delaunay triangulation of the positions, as documented",
]
LEVEL_TEXT = "Each case checks every evaluation point and component; Hypothesis varies geometry, currents, units and modes."
LEVEL_NOTE = "Trusted: numpy sums in long double, scipy.integrate.quad (1e-10), the explicit unit table."


def budget(tier):
    if tier == "quick":
        return dict(max_examples=1500, workers=8, time_s=170, min_cases=400)
    return dict(max_examples=200000, workers=16, time_s=1200, min_cases=800)


@st.composite
def _bs_case(draw, tier):
    nx, ny = draw(st.integers(2, 8)), draw(st.integers(2, 8))
    n = nx * ny
    h = draw(gen.rf(0.1, 3.0))
    m = draw(st.integers(1, 12))
    return dict(kind="biot_savart", nx=nx, ny=ny, h=h,
                offs=[[draw(st.floats(0.1, 0.9)), draw(st.floats(0.1, 0.9))] for _ in range(n)],
                J1=[[draw(st.floats(-3, 3)), draw(st.floats(-3, 3))] for _ in range(n)],
                J2=[[draw(st.floats(-3, 3)), draw(st.floats(-3, 3))] for _ in range(n)],
                alpha=draw(gen.rf(-2, 2)), beta=draw(gen.rf(-2, 2)),
                areas=draw(st.sampled_from(["given", "given", "none"])), area_vals=[draw(st.floats(0.05, 2.0)) for _ in range(n)],
                z0=draw(st.sampled_from([0.0, 0.0, 0.7, -1.3])),
                pts=[[draw(st.floats(-2, 10)), draw(st.floats(-2, 10)), draw(st.sampled_from([1, -1])) * draw(st.floats(0.05, 3.0))] for _ in range(m)],
                zmode=draw(st.sampled_from(["array", "scalar"])),
                lu=draw(st.sampled_from(gen.LENGTH_UNITS)), cu=draw(st.sampled_from(gen.CURRENT_UNITS)))


@st.composite
def _loop_case(draw, tier):
    pts = []
    for _ in range(draw(st.integers(1, 6))):
        if draw(st.integers(0, 7)) == 0:
            # on / next to the loop axis (a mesh point right under the centre of the loop)
            rho = draw(st.sampled_from([0.0, 1e-12, 1e-9, 1e-6]))
        else:
            rho = draw(gen.rf(0.02, 6.0))
        phi = draw(gen.rf(0.0, 6.28))
        z = draw(st.sampled_from([1, -1])) * draw(gen.rf(0.05, 4.0))
        pts.append([rho * math.cos(phi), rho * math.sin(phi), z, rho])
    return dict(kind="loop", radius=draw(gen.rf(0.1, 5.0)), center=[draw(gen.rf(-3, 3)), draw(gen.rf(-3, 3)), draw(gen.rf(-2, 2))],
                current=draw(st.sampled_from([1, -1])) * draw(gen.rf(0.01, 10)), lu=draw(st.sampled_from(gen.LENGTH_UNITS)),
                cu=draw(st.sampled_from(gen.CURRENT_UNITS)), pts=pts)


@st.composite
def _convert_case(draw, tier):
    return dict(kind="convert", values=[draw(st.floats(-1e3, 1e3)) for _ in range(draw(st.integers(1, 5)))],
                b_units=draw(st.sampled_from(["mT", "uT", "T"])), h_units=draw(st.sampled_from(["A/m", "uA/um", "mA/mm", "nA/nm"])),
                nx=draw(st.integers(1, 7)), ny=draw(st.integers(1, 7)), dim=draw(st.sampled_from([2, 3])),
                xa=[[draw(st.floats(-5, 5)) for _ in range(3)] for _ in range(draw(st.integers(1, 6)))],
                xb=[[draw(st.floats(-5, 5)) for _ in range(3)] for _ in range(draw(st.integers(1, 6)))])


@st.composite
def _solution_case(draw, tier):
    timedep = draw(st.booleans())
    return dict(kind="solution", timedep=timedep, B=draw(st.sampled_from([0.4, -0.8, 1.2, 0.02])), current=draw(st.sampled_from([0, 5, -8, 0.05])),
                nsteps=draw(st.integers(2, 9)), save_every=draw(st.integers(1, 4)), frame=draw(st.integers(0, 20)),
                fu=draw(st.sampled_from(["mT", "uT"])), cu=draw(st.sampled_from(["uA", "nA", "mA", "A"])),
                # the same physical device stated in micrometres or nanometres (weak currents are then tiny numbers in A/nm)
                lu=draw(st.sampled_from(["um", "um", "nm"])),
                # now and then a scan with very many evaluation points in one call
                many=draw(st.integers(0, 11)) == 0,
                z0=draw(st.sampled_from([0.0, 0.25])),
                pts=[[draw(st.floats(-3, 3)), draw(st.floats(-3, 3)), draw(st.sampled_from([1, -1])) * draw(st.floats(0.1, 2.0))] for _ in range(draw(st.integers(1, 5)))],
                zmode=draw(st.sampled_from(["column", "zs_array", "zs_scalar"])), vector=draw(st.booleans()),
                # what the same Solution object was asked just before: nothing, the same (x, y) at another height, or other points
                prime=draw(st.sampled_from([None, "same_xy_other_z", "same_xy_other_z", "other_points"])),
                intpos=draw(st.integers(0, 3)) == 0,
                units=draw(st.sampled_from([None, "mT", "uA/um"])))


def strategy(tier):
    return st.one_of(_bs_case(tier), _bs_case(tier), _loop_case(tier), _convert_case(tier), _solution_case(tier))


def check_case(spec):
    res = Result()
    return {"biot_savart": _bs, "loop": _loop, "convert": _convert, "solution": _solution}[spec["kind"]](spec, res)


def direct_biot_savart(eval_m, pos_m, K, areas_m2):
    """mu0/4pi sum_k a_k (K_k x R)/|R|^3, all SI, long double accumulation.  K is (n,2) in A/m."""
    R = (eval_m[:, None, :] - pos_m[None, :, :]).astype(np.longdouble)
    r3 = np.sum(R * R, axis=2) ** 1.5
    Kx, Ky = K[None, :, 0].astype(np.longdouble), K[None, :, 1].astype(np.longdouble)
    w = (orc.MU0 / (4 * np.pi)) * areas_m2[None, :].astype(np.longdouble) / r3
    Bx = np.sum(w * (Ky * R[:, :, 2]), axis=1)
    By = np.sum(w * (-Kx * R[:, :, 2]), axis=1)
    Bz = np.sum(w * (Kx * R[:, :, 1] - Ky * R[:, :, 0]), axis=1)
    mag = np.sum(np.abs(w) * (np.abs(Kx) + np.abs(Ky)) * np.sqrt(np.sum(R * R, axis=2)), axis=1)
    return np.stack([Bx, By, Bz], axis=1).astype(float), mag.astype(float)


def _bs(spec, res):
    from scipy.spatial import Delaunay
    from tdgl.em import biot_savart_2d
    from tdgl.finite_volume.mesh import Mesh

    nx, ny, h = spec["nx"], spec["ny"], spec["h"]
    pos = np.array([[(i + spec["offs"][i * ny + j][0]) * h, (j + spec["offs"][i * ny + j][1]) * h] for i in range(nx) for j in range(ny)])
    n = len(pos)
    J1, J2 = np.array(spec["J1"]), np.array(spec["J2"])
    pts = np.array(spec["pts"]) * np.array([h, h, h])
    pts[:, 2] += spec["z0"]  # keep the generated distance from the plane
    L, C = orc.LENGTH[spec["lu"]], orc.CURRENT[spec["cu"]]
    if spec["areas"] == "given":
        areas = np.array(spec["area_vals"]) * h * h
        areas_m2 = areas * L * L
    else:
        areas = None
    res.label("biot_savart_2d", f"areas={spec['areas']}", f"units={spec['lu']}/{spec['cu']}")
    z = pts[:, 2] if spec["zmode"] == "array" else float(pts[0, 2])
    zz = pts[:, 2] if spec["zmode"] == "array" else np.full(len(pts), float(pts[0, 2]))
    kw = dict(positions=pos, z0=spec["z0"], areas=areas, length_units=spec["lu"], current_units=spec["cu"])

    def call(J, vector):
        return biot_savart_2d(pts[:, 0], pts[:, 1], z, current_densities=J, vector=vector, **kw).to("tesla").magnitude

    try:
        Bv1 = call(J1, True)
    except Exception as exc:  # noqa: BLE001
        res.fail("C20.biot_savart_raised", f"biot_savart_2d(areas={spec['areas']}, n={n}) raised {type(exc).__name__}: {exc}")
        res.nontrivial = n >= 10
        return res
    if areas is None:
        tri = Delaunay(pos * L).simplices
        areas_m2 = Mesh.from_triangulation(pos * L, tri).areas
    eval_m = np.stack([pts[:, 0] * L, pts[:, 1] * L, zz * L], axis=1)
    pos_m = np.concatenate([pos * L, np.full((n, 1), spec["z0"] * L)], axis=1)
    want, mag = direct_biot_savart(eval_m, pos_m, J1 * C / L, areas_m2)
    err = float(np.max(np.abs(Bv1 - want) / (mag[:, None] + 1e-300)))
    res.stat("vs_direct_sum", err)
    if Bv1.shape != (len(pts), 3) or err > 1e-10:
        res.fail("C20.biot_savart_value", f"vector field differs from the direct Biot-Savart sum in SI units by {err:.3e} (relative to the summed magnitudes); shape {Bv1.shape}")
    Bz1 = call(J1, False)
    if Bz1.shape != (len(pts),) or np.max(np.abs(Bz1 - Bv1[:, 2]) / (mag + 1e-300)) > 1e-12:
        res.fail("C20.scalar_vs_vector", "scalar mode is not the z-component of the vector mode")
    a, b = spec["alpha"], spec["beta"]
    Bv2 = call(J2, True)
    Bc = call(a * J1 + b * J2, True)
    _, mag2 = direct_biot_savart(eval_m, pos_m, (abs(a) * np.abs(J1) + abs(b) * np.abs(J2)) * C / L, areas_m2)
    lin = float(np.max(np.abs(Bc - (a * Bv1 + b * Bv2)) / (mag2[:, None] + 1e-300)))
    res.stat("linearity", lin)
    if lin > 1e-12:
        res.fail("C20.linearity", f"B(a J1 + b J2) differs from a B(J1) + b B(J2) by {lin:.3e}")
    bn = np.linalg.norm(Bv1, axis=1)
    res.nontrivial = n >= 10 and int(np.sum(bn > 1e-3 * bn.max())) >= min(3, len(pts)) and len(pts) >= 3
    return res


def _loop(spec, res):
    from tdgl.em import current_loop_vector_potential

    L, C = orc.LENGTH[spec["lu"]], orc.CURRENT[spec["cu"]]
    a = spec["radius"]
    c = np.array(spec["center"])
    rel = np.array(spec["pts"])
    pts = rel[:, :3] * a + c
    near_axis = rel[:, 3] < 1e-3
    res.label("current loop")
    got = current_loop_vector_potential(pts, loop_center=tuple(c), loop_radius=a, current=spec["current"], length_units=spec["lu"], current_units=spec["cu"]).to("T * m").magnitude
    I = spec["current"] * C
    worst = 0.0
    worst_axis = 0.0
    for p, g, ax in zip(pts, got, near_axis):
        r = (p - c) * L

        def f(phi, comp):
            src = a * L * np.array([np.cos(phi), np.sin(phi), 0.0])
            dl = a * L * np.array([-np.sin(phi), np.cos(phi), 0.0])
            return dl[comp] / np.linalg.norm(r - src)

        want = np.array([integrate.quad(f, 0, 2 * np.pi, args=(k,), epsabs=0, epsrel=1e-11, limit=200)[0] for k in range(3)]) * orc.MU0 * I / (4 * np.pi)
        scale = orc.MU0 * abs(I) / (4 * np.pi) * 2 * np.pi * a * L / max(np.linalg.norm(r), a * L * 0.05)
        e = float(np.max(np.abs(g - want)) / (scale + 1e-300)) if np.all(np.isfinite(g)) else float("inf")
        if ax:
            worst_axis = max(worst_axis, e)
        else:
            worst = max(worst, e)
    res.stat("loop_vs_quadrature", worst)
    if got.shape != (len(pts), 3) or worst > 1e-8:
        res.fail("C20.loop_potential", f"closed-form loop potential differs from quadrature of mu0 I/4pi oint dl/|r-r'| by {worst:.3e}")
    if np.any(near_axis):
        res.label("point on / next to the loop axis")
        if worst_axis > 1e-8:
            res.fail("C20.loop_near_axis", f"evaluation point within 1e-3 radii of the loop axis: closed form gives {got[near_axis][0].tolist()} (error {worst_axis:.3e} of the scale)")
    res.nontrivial = len(pts) >= 3
    return res


def _convert(spec, res):
    import tdgl
    from tdgl import distance
    from tdgl.em import convert_field

    res.label("convert / cdist")
    ureg = tdgl.ureg
    v = np.array(spec["values"])
    try:
        h = convert_field(v, spec["h_units"], old_units=spec["b_units"], ureg=ureg, with_units=False)
        back = convert_field(h, spec["b_units"], old_units=spec["h_units"], ureg=ureg, with_units=False)
        if np.max(np.abs(back - v)) > 1e-12 * max(1.0, np.max(np.abs(v))):
            res.fail("C20.convert_round_trip", f"{spec['b_units']} -> {spec['h_units']} -> {spec['b_units']} changes {v.tolist()} into {np.asarray(back).tolist()}")
        # B = mu0 H in SI
        b_T = convert_field(v, "T", old_units=spec["b_units"], ureg=ureg, with_units=False)
        h_si = convert_field(v, "A/m", old_units=spec["b_units"], ureg=ureg, with_units=False)
        if np.max(np.abs(h_si * orc.MU0 - b_T)) > 1e-9 * max(1e-300, np.max(np.abs(b_T))):
            res.fail("C20.convert_mu0", "H = B/mu0 does not hold for the converted values")
        same = convert_field(v, spec["b_units"], old_units=spec["b_units"], ureg=ureg, with_units=False)
        if np.max(np.abs(same - v)) > 1e-12 * max(1.0, np.max(np.abs(v))):
            res.fail("C20.convert_identity", "conversion to the same unit changes the value")
    except Exception as exc:  # noqa: BLE001
        res.fail("C20.convert_raised", f"convert_field raised {type(exc).__name__}: {exc}")
    d = spec["dim"]
    XA, XB = np.array(spec["xa"])[:, :d], np.array(spec["xb"])[:, :d]
    for metric in ("euclidean", "sqeuclidean"):
        got = distance.cdist(XA, XB, metric=metric)
        want = np.sum((XA[:, None, :] - XB[None, :, :]) ** 2, axis=2)
        if metric == "euclidean":
            want = np.sqrt(want)
        if got.shape != want.shape or np.max(np.abs(got - want)) > 1e-12 * max(1.0, want.max()):
            res.fail("C20.cdist", f"cdist({metric}) differs from numpy")
    res.nontrivial = len(v) >= 2
    return res


_SOL_CACHE = {}

_DEV = dict(
    lu="um", layer=dict(xi=0.5, lam=2.0, d=0.1, gamma=10.0, u=5.79, z0=0.0),
    film=dict(kind="box", w=2.5, h=2.0, points=30, center=[0.2, -0.1]), holes=[],
    terminals=[dict(name="src", width=1.2, shape=dict(kind="box", w=0.25, h=1.2, points=16, center=[-1.05, -0.1])),
               dict(name="drn", width=1.2, shape=dict(kind="box", w=0.25, h=1.2, points=16, center=[1.45, -0.1]))],
    mesh=dict(max_edge_length=0.5, min_points=None, smooth=0),
)


def _solution(spec, res):
    import tdgl
    from tdgl.sources import ConstantField, LinearRamp

    res.label("solution fields", "time-dependent A" if spec["timedep"] else "static A")
    from . import c08

    lu = spec.get("lu", "um")
    dspec, sL = c08.convert_device(dict(_DEV, layer=dict(_DEV["layer"], z0=spec["z0"])), lu)
    spec = dict(spec, z0=spec["z0"] * sL, pts=[[p[0] * sL, p[1] * sL, p[2] * sL] for p in spec["pts"]])
    dev = build.make_device(dspec)
    lay = dspec["layer"]
    fu, cu = spec["fu"], spec["cu"]
    res.label(f"units {lu}/{cu}")
    Bval = spec["B"] * orc.FIELD["mT"] / orc.FIELD[fu]
    A = ConstantField(Bval, field_units=fu, length_units=lu)
    if spec["timedep"]:
        A = A * LinearRamp(tmin=0.0, tmax=0.05, initial=0.2, final=1.0)
    Ival = spec["current"] * orc.CURRENT["uA"] / orc.CURRENT[cu]
    with sim.workdir():
        opts = tdgl.SolverOptions(solve_time=(spec["nsteps"] - 0.5) * 0.01, dt_init=0.01, adaptive=False, save_every=spec["save_every"],
                                  field_units=fu, current_units=cu, output_file="out.h5")
        sol = tdgl.solve(dev, opts, applied_vector_potential=A, terminal_currents=dict(src=Ival, drn=-Ival))
        frames, _ = sim.read_frames(sol.path)
        j = spec["frame"] % len(frames)
        sol.solve_step = j
        t_frame = float(frames[j]["attrs"]["time"])
        pts = np.array(spec["pts"])
        pts[:, 2] = np.where(np.abs(pts[:, 2] - spec["z0"]) < 0.1 * sL, spec["z0"] + 0.3 * sL, pts[:, 2])
        if spec.get("intpos"):
            # positions given as integers, e.g. [1, 0, 2] ("a single list like [x, y, z] is also allowed")
            pts = np.round(pts)
            pts[:, 2] = np.where(np.abs(pts[:, 2] - spec["z0"]) < 0.1 * sL, np.round(spec["z0"] + 1.0 * sL), pts[:, 2])
            pts = pts.astype(int)
            res.label("integer positions")
        if spec["zmode"] == "column":
            args, kw = (pts,), {}
            zz = pts[:, 2]
        elif spec["zmode"] == "zs_array":
            args, kw = (pts[:, :2],), dict(zs=pts[:, 2].copy())
            zz = pts[:, 2]
        else:
            args, kw = (pts[:, :2],), dict(zs=float(pts[0, 2]))
            zz = np.full(len(pts), float(pts[0, 2]))
        L = orc.LENGTH[lu]
        pos_m = np.concatenate([dev.points * L, np.full((len(dev.points), 1), spec["z0"] * L)], axis=1)
        eval_m = np.stack([pts[:, 0] * L, pts[:, 1] * L, zz * L], axis=1)
        areas_m2 = dev.mesh.areas * (lay["xi"] * L) ** 2
        Ks = sol.supercurrent_density.to("A / m").magnitude
        Kn = sol.normal_current_density.to("A / m").magnitude
        # ---- field
        try:
            if spec.get("prime"):
                xy0 = pts[:, :2] if spec["prime"] == "same_xy_other_z" else pts[::-1, :2] + sL
                sol.field_at_position(xy0, zs=float(np.max(np.abs(zz))) + 2.5 * sL + spec["z0"], units="T", with_units=False)
            parts = sol.field_at_position(*args, vector=spec["vector"], units="T", with_units=False, return_sum=False, **kw)
            total = sol.field_at_position(*args, vector=spec["vector"], units="T", with_units=False, return_sum=True, **kw)
        except Exception as exc:  # noqa: BLE001
            res.fail("C20.field_raised", f"field_at_position({spec['zmode']}, vector={spec['vector']}) raised {type(exc).__name__}: {exc}")
            return res
        for name, K, got in (("supercurrent", Ks, parts.supercurrent), ("normal_current", Kn, parts.normal_current)):
            want, mag = direct_biot_savart(eval_m, pos_m, K, areas_m2)
            want_c = want if spec["vector"] else want[:, 2]
            magc = mag[:, None] if spec["vector"] else mag
            err = float(np.max(np.abs(np.asarray(got) - want_c) / (magc + 1e-300)))
            res.stat("field_vs_direct", err)
            if err > 1e-9:
                res.fail("C20.field_part", f"field of the {name} differs from the direct Biot-Savart sum of Solution.{name}_density by {err:.3e}")
        if np.max(np.abs(np.asarray(total) - (np.asarray(parts.supercurrent) + np.asarray(parts.normal_current)))) > 1e-12 * (np.max(np.abs(total)) + 1e-300):
            res.fail("C20.field_sum", "return_sum=True is not the sum of the supercurrent and normal-current parts")
        if spec["units"]:
            conv = sol.field_at_position(*args, vector=spec["vector"], units=spec["units"], with_units=False, **kw)
            factor = (1 / orc.MU0 if "/" in spec["units"] else 1.0) / (orc.FIELD.get(spec["units"], 1.0) if "/" not in spec["units"] else 1.0)
            if np.max(np.abs(np.asarray(conv) - np.asarray(total) * factor)) > 1e-9 * (np.max(np.abs(np.asarray(total) * factor)) + 1e-300):
                res.fail("C20.field_units", f"field in units {spec['units']} is not the tesla value converted")
        # ---- vector potential
        try:
            if spec.get("prime"):
                # an earlier evaluation on the same Solution must not influence the next one
                res.label(f"preceded by an evaluation at {spec['prime'].replace('_', ' ')}")
                xy0 = pts[:, :2] if spec["prime"] == "same_xy_other_z" else pts[::-1, :2] + sL
                sol.vector_potential_at_position(xy0, zs=float(np.max(np.abs(zz))) + 1.5 * sL + spec["z0"], units="T * m", with_units=False)
                sol.field_at_position(xy0, zs=float(np.max(np.abs(zz))) + 2.5 * sL + spec["z0"], units="T", with_units=False)
            vp = sol.vector_potential_at_position(*args, units="T * m", with_units=False, return_sum=False, **kw)
            vsum = sol.vector_potential_at_position(*args, units="T * m", with_units=False, return_sum=True, **kw)
        except Exception as exc:  # noqa: BLE001
            res.fail("C20.potential_raised", f"vector_potential_at_position({spec['zmode']}) raised {type(exc).__name__}: {exc}")
            return res
        R = np.linalg.norm(eval_m[:, None, :] - pos_m[None, :, :], axis=2)
        for name, K in (("supercurrent_density", Ks), ("normal_current_density", Kn)):
            want = (orc.MU0 / (4 * np.pi)) * np.einsum("ij,jk->ik", areas_m2[None, :] / R, K)
            mag = (orc.MU0 / (4 * np.pi)) * np.einsum("ij,jk->ik", areas_m2[None, :] / R, np.abs(K)).sum(axis=1)
            got = np.asarray(vp[name])
            err = float(np.max(np.abs(got[:, :2] - want) / (mag[:, None] + 1e-300)))
            res.stat("potential_vs_direct", err)
            if err > 1e-9 or np.any(got[:, 2] != 0):
                res.fail("C20.potential_part", f"vector potential of the {name} differs from (mu0/4pi) sum K a / r by {err:.3e}")
        # applied part = the applied Parameter evaluated at the frame's recorded time
        kwt = dict(t=t_frame) if spec["timedep"] else {}
        want_app = np.atleast_2d(np.asarray(A(pts[:, 0], pts[:, 1], zz, **kwt))) * orc.FIELD[fu] * L
        got_app = np.asarray(vp["applied"])
        if got_app.shape[1] == 3:
            want_app = np.concatenate([want_app[:, :2], np.zeros((len(pts), 1))], axis=1) if want_app.shape[1] == 2 else want_app
        scale = float(np.max(np.abs(want_app))) + 1e-300
        err = float(np.max(np.abs(got_app - want_app)) / scale)
        res.stat("applied_part", err)
        if err > 1e-9:
            res.fail("C20.applied_part", f"applied part differs from the applied potential evaluated at the frame's time t={t_frame:.4g} (frame {j}, step {int(frames[j]['attrs']['step'])}) by {err:.3e} relative")
        tot = sum(np.asarray(v) for v in vp.values())
        if np.max(np.abs(np.asarray(vsum) - tot)) > 1e-12 * (np.max(np.abs(tot)) + 1e-300):
            res.fail("C20.potential_sum", "return_sum=True is not the sum of the applied, supercurrent and normal-current parts")
        if spec.get("many"):
            # a scan: a prime number of positions (more than 2**22 / number of sites) in one call; the parts due to the sheet
            # currents must equal the direct sums, and one call must equal the same positions evaluated in pieces
            res.label("scan with very many positions in one call")
            nsite = len(dev.points)
            M = next(m for m in range(int(2 ** 22 / nsite) + 1500, 10 ** 7) if all(m % q for q in range(2, int(m ** 0.5) + 1)))
            k = np.arange(M)
            lo, hi = dev.points.min(axis=0) - 1.0 * sL, dev.points.max(axis=0) + 1.0 * sL
            P2 = np.stack([lo[0] + (hi[0] - lo[0]) * ((k * 0.6180339887) % 1.0), lo[1] + (hi[1] - lo[1]) * ((k * 0.7548776662) % 1.0)], axis=1)
            zsc = spec["z0"] + 0.8 * sL
            vp = sol.vector_potential_at_position(P2, zs=zsc, units="T * m", with_units=False, return_sum=False)
            Bz = np.asarray(sol.field_at_position(P2, zs=zsc, units="T", with_units=False))
            worst = 0.0
            for a0 in range(0, M, 4096):
                sl = slice(a0, min(a0 + 4096, M))
                ev = np.stack([P2[sl, 0] * L, P2[sl, 1] * L, np.full(sl.stop - sl.start, zsc * L)], axis=1)
                R = np.linalg.norm(ev[:, None, :] - pos_m[None, :, :], axis=2)
                for name, K in (("supercurrent_density", Ks), ("normal_current_density", Kn)):
                    want = (orc.MU0 / (4 * np.pi)) * (areas_m2[None, :] / R) @ K
                    mag = (orc.MU0 / (4 * np.pi)) * ((areas_m2[None, :] / R) @ np.abs(K)).sum(axis=1)
                    got = np.asarray(vp[name])[sl]
                    worst = max(worst, float(np.max(np.abs(got[:, :2] - want) / (mag[:, None] + 1e-300))))
            res.stat("potential_vs_direct_many", worst)
            if worst > 1e-9:
                res.fail("C20.potential_part", f"scan of {M} positions in one call: vector potential of the sheet currents differs from (mu0/4pi) sum K a / r by {worst:.3e}")
            piece = np.concatenate([np.asarray(sol.field_at_position(P2[a0:a0 + 7001], zs=zsc, units="T", with_units=False)) for a0 in range(0, M, 7001)])
            if Bz.shape != piece.shape or np.max(np.abs(Bz - piece)) > 1e-9 * (np.max(np.abs(piece)) + 1e-300):
                res.fail("C20.field_part", f"scan of {M} positions: the field from one call differs from the same positions evaluated in pieces")
    res.nontrivial = len(pts) >= 3
    return res
