"""C11 - the trajectory depends only on the physics and can be resumed."""
import numpy as np
from hypothesis import strategies as st

from .. import build, gen, sim
from .. import oracles as orc
from ..engine import Result

PID = "C11"
TITLE = "The trajectory depends only on the physics and can be resumed"
LEVEL = "exploration"
TECHNIQUE = "metamorphic relations between whole simulations: same physics under two independently drawn recording configurations (bit-identical frames at equal step labels), and split/resumed runs via seed_solution against the uninterrupted run"
RULE = (
    "observer case = generated device/drive/options solved under two recording configurations drawn independently (save_every, explicit output "
    "file vs temporary, probe points present/absent, progress_interval); resume case = fixed-dt, time-independent drive, all splits N1+N2 drawn, "
    "second part seeded with the first part's Solution (as returned, or read back from its file), continued 1..3 times from that same saved state; non-trivial = the two configurations differ in save_every and share >= 2 step labels, "
    "or a resume with N1, N2 >= 2; distinct by spec hash"
    "; two resume cases in five use time steps 1e-6..1e-3 of the stability scale; the saved state may be inspected through eleven read-only views before it is continued"
)
ASSUMPTIONS = [
    "bit-identity is compared on psi, mu, supercurrent, normal current and induced vector potential of frames with equal step labels",
    "with output_file=None only the final frame and the per-step records survive (the temporary file is removed), so those are what is compared",
    "resume is only claimed for a fixed time step and a time-independent drive, as the property states",
]
LEVEL_TEXT = "Each generated pair compares every shared frame bit for bit; each resume case compares every frame of the resumed run with the uninterrupted one."
LEVEL_NOTE = "Trusted: h5py reads; SHA-256 digests as bit-identity."


def budget(tier):
    if tier == "quick":
        return dict(max_examples=360, workers=8, time_s=170, min_cases=100)
    return dict(max_examples=15000, workers=16, time_s=1200, min_cases=200)


@st.composite
def _recording(draw, nsteps):
    return dict(save_every=draw(st.integers(1, nsteps + 2)), output=draw(st.sampled_from(["file", "file", "none", "subdir"])),
                probes=draw(st.booleans()), progress_interval=draw(st.sampled_from([0, 0, 1, 7])))


@st.composite
def _case(draw, tier):
    scr = draw(st.integers(0, 4)) == 0
    dev = draw(gen.device(terminals=(0, 3), holes=(0, 1), probes=(2, 3), film_kinds=("box", "ellipse", "union"), size=(3.5, 5.5),
                          screening=scr).filter(gen.valid_device))
    fu = draw(st.sampled_from(gen.FIELD_UNITS))
    cu = draw(st.sampled_from(gen.CURRENT_UNITS))
    kind = draw(st.sampled_from(["observer", "observer", "resume"]))
    nsteps = draw(st.integers(4, 16 if tier == "quick" else 50))
    if kind == "observer":
        fld = draw(gen.field(dev, fu, kinds=("constant", "ramp", "float", "zero"), bmax=0.25 if scr else 0.5))
        cur = draw(gen.currents(dev, cu, kinds=("dict", "callable")))
        adaptive = draw(st.booleans())
        extra = dict(rec_a=draw(_recording(nsteps)), rec_b=draw(_recording(nsteps)))
    else:
        fld = draw(gen.field(dev, fu, kinds=("constant", "float", "zero", "gauge_param"), bmax=0.25 if scr else 0.5))
        cur = draw(gen.currents(dev, cu, kinds=("dict",)))
        adaptive = False
        n1 = draw(st.integers(1, nsteps - 1))
        # the saved state is used as handed back (in memory), or read back from its file, and may be continued more than once
        extra = dict(n1=n1, n2=nsteps - n1, save_every=draw(st.integers(1, nsteps)), save_every_b=draw(st.integers(1, nsteps)),
                     seed_from=draw(st.sampled_from(["memory", "memory", "disk"])), repeat=draw(st.sampled_from([1, 2, 2, 3])),
                     # the saved state may be looked at (plots, derived quantities) before it is continued
                     inspect=draw(st.booleans()))
    return dict(kind=kind, device=dev, field=fld, currents=cur, nsteps=nsteps,
                # mostly time steps at the stability scale; one case in five uses steps 1e-6..1e-3 of it, where the state changes
                # by less than any "nothing has changed" tolerance per step (yet every step is a step)
                options=dict(dt_c=draw(gen.rf(0.05, 0.4)) * (1.0 if draw(st.integers(0, 4)) > (1 if kind == "resume" else 0) else draw(gen.logu(-6, -3))), dtmax_c=0.45, adaptive=adaptive, adaptive_window=draw(st.integers(1, 5)),
                             include_screening=scr, screening_tolerance=1e-3, field_units=fu, current_units=cu,
                             terminal_psi=draw(st.sampled_from([0.0, 0.0, None, [0.3, 0.4]]))), **extra)


def strategy(tier):
    return _case(tier)


KEYS = ("psi", "mu", "supercurrent", "normal_current", "induced_vector_potential")


INSPECTIONS = (
    ("plot_scalar_potential", lambda s: s.plot_scalar_potential()),
    ("plot_order_parameter", lambda s: s.plot_order_parameter()),
    ("plot_currents", lambda s: s.plot_currents()),
    ("plot_vorticity", lambda s: s.plot_vorticity()),
    ("current_density", lambda s: s.current_density),
    ("vorticity", lambda s: s.vorticity),
    ("field_at_position", lambda s: s.field_at_position(s.device.points[:3], zs=1.0)),
    ("vector_potential_at_position", lambda s: s.vector_potential_at_position(s.device.points[:3], zs=1.0)),
    ("interp_order_parameter", lambda s: s.interp_order_parameter(s.device.points[:3])),
    ("dynamics.plot", lambda s: s.dynamics.plot() if s.dynamics.mu is not None and s.dynamics.mu.shape[0] > 1 else None),
    ("dynamics.plot_dt", lambda s: s.dynamics.plot_dt()),
)


def _inspect(sol, res, what):
    """Look at a finished solution through its read-only views; its recorded state must be the same afterwards."""
    import matplotlib.pyplot as plt

    before = {k: np.array(getattr(sol.tdgl_data, k)) for k in KEYS}
    dt0 = np.array(sol.dynamics.dt)
    for name, call in INSPECTIONS:
        try:
            call(sol)
        except Exception as exc:  # noqa: BLE001
            res.label(f"inspection {name} raised {type(exc).__name__} (not asserted)")
        finally:
            plt.close("all")
        after = {k: np.array(getattr(sol.tdgl_data, k)) for k in KEYS}
        bad = [k for k in KEYS if not np.array_equal(before[k], after[k])]
        if bad or not np.array_equal(dt0, sol.dynamics.dt):
            res.fail("C11.inspection_changed_state", f"{name} changed {bad or 'the per-step record'} of the {what} it was applied to "
                     f"(max change {max((float(np.max(np.abs(before[k] - after[k]))) for k in bad), default=0.0):.3e})")
            return


def _run(dev, spec, nsteps, save_every, output="file", progress_interval=0, seed_solution=None, T=None, reload=False, inspect=None):
    """returns dict(frames by step label (or only the final one), dt record, solution)"""
    import os

    out = {}
    with sim.workdir() as (cwd, tmp):
        path = {"file": "out.h5", "subdir": os.path.join("results", "run 1", "out.h5"), "none": None}[output]
        o = dict(spec["options"], save_every=save_every, progress_interval=progress_interval)
        if T is None:
            o["nsteps"] = nsteps
        else:
            o["solve_time"] = T
        opts = build.make_options(o, dev, output_file=path)
        solver = build.make_solver(dev, opts, applied_vector_potential=build.make_vector_potential(spec["field"], dev, opts.field_units, opts.solve_time),
                                   terminal_currents=build.make_currents(spec["currents"], opts.solve_time), seed_solution=seed_solution)
        sol = solver.solve()
        out["solve_time"] = opts.solve_time
        out["dt"] = np.array(sol.dynamics.dt)
        td = sol.tdgl_data
        out["final"] = {k: np.array(getattr(td, k)) for k in KEYS}
        out["final_step"] = int(td.state["step"])
        out["frames"] = None
        if path is not None:
            frames, _ = sim.read_frames(sol.path)
            out["frames"] = {int(f["attrs"]["step"]): f for f in frames}
            out["exists"] = os.path.exists(sol.path)
        out["_sol"] = sol
        if reload and path is not None:
            # the same saved state read back from its file; everything a continuation needs is loaded while the file exists
            import tdgl

            disk = tdgl.Solution.from_hdf5(sol.path)
            _ = disk.tdgl_data
            out["_sol_disk"] = disk
        if inspect is not None:
            _inspect(out.get("_sol_disk", sol), inspect, "saved state (read back from its file)" if "_sol_disk" in out else "returned solution")
        # seed solutions must stay readable after the work directory is gone: they only use in-memory tdgl_data
    return out


def _same(a, b):
    return all(np.array_equal(a[k], b[k]) and a[k].dtype == b[k].dtype for k in KEYS)


def check_case(spec):
    res = Result()
    dev = build.make_device_or_refuse(spec["device"])
    res.label(spec["kind"], "screening" if spec["options"]["include_screening"] else "no screening",
              "adaptive" if spec["options"]["adaptive"] else "fixed dt")
    try:
        if spec["kind"] == "observer":
            return _observer(spec, dev, res)
        return _resume(spec, dev, res)
    except RuntimeError as exc:
        if "converge" in str(exc):
            res.label("documented non-convergence")
            return res
        raise
    except ValueError as exc:
        if "does not contain any points" in str(exc):
            res.label("discarded: terminal without boundary sites")
            return res
        raise


def _observer(spec, dev, res):
    ra, rb = spec["rec_a"], spec["rec_b"]
    devs = {}
    for tag, r in (("a", ra), ("b", rb)):
        if r["probes"]:
            devs[tag] = dev
        else:
            d2 = build.make_device(dict(spec["device"], probes=None), cache=False, with_mesh=False)
            d2.mesh = dev.mesh
            devs[tag] = d2
    A = _run(devs["a"], spec, spec["nsteps"], ra["save_every"], ra["output"], ra["progress_interval"])
    B = _run(devs["b"], spec, spec["nsteps"], rb["save_every"], rb["output"], rb["progress_interval"], T=A["solve_time"])
    for k in ("save_every", "output", "probes", "progress_interval"):
        if ra[k] != rb[k]:
            res.label(f"differs: {k}")
    # per-step time steps are part of the trajectory
    if len(A["dt"]) != len(B["dt"]) or not np.array_equal(A["dt"], B["dt"]):
        res.fail("C11.observer_dt", f"time-step sequences differ between recording configurations {ra} and {rb}: {len(A['dt'])} vs {len(B['dt'])} steps")
        return res
    if A["final_step"] != B["final_step"] or not _same(A["final"], B["final"]):
        res.fail("C11.observer_final", f"final state differs between recording configurations {ra} and {rb} (final steps {A['final_step']}, {B['final_step']})")
        return res
    shared = 0
    if A["frames"] is not None and B["frames"] is not None:
        for s in sorted(set(A["frames"]) & set(B["frames"])):
            shared += 1
            fa, fb = A["frames"][s], B["frames"][s]
            if float(fa["attrs"]["time"]) != float(fb["attrs"]["time"]) or not _same(fa, fb):
                bad = [k for k in KEYS if not np.array_equal(fa[k], fb[k])]
                res.fail("C11.observer_frames", f"frames labelled step {s} differ ({bad or 'time'}) between {ra} and {rb}")
                break
    for X in (A, B):
        if X["frames"] is not None:
            fin = X["frames"][max(X["frames"])]
            if not _same(fin, X["final"]):
                res.fail("C11.final_in_memory", "the Solution's in-memory final data differs from the last frame on disk")
    res.nontrivial = ra["save_every"] != rb["save_every"] and shared >= 2
    return res


def _resume(spec, dev, res):
    n1, n2 = spec["n1"], spec["n2"]
    seed_from, repeat = spec.get("seed_from", "memory"), int(spec.get("repeat", 1))
    full = _run(dev, spec, n1 + n2, spec["save_every"])
    first = _run(dev, spec, n1, spec["save_every_b"], reload=seed_from == "disk", inspect=res if spec.get("inspect") else None)
    if spec.get("inspect"):
        res.label("saved state inspected (plots, derived quantities) before continuing")
        if res.violations:
            return res
    seed = first["_sol_disk"] if seed_from == "disk" else first["_sol"]
    # the seed's label is what the continuation is counted from
    label = first["final_step"]
    if label != n1:
        res.fail("C11.resume_label", f"first part was asked for {n1} steps but its final frame is labelled step {label}")
        return res
    res.label(f"split={'early' if n1 <= 2 else 'mid'}", f"saved state from {seed_from}", f"continued {repeat}x from the same saved state")
    res.nontrivial = n1 >= 2 and n2 >= 2
    ff = full["frames"]
    saved = {k: np.array(getattr(seed.tdgl_data, k)) for k in KEYS}
    for rep in range(repeat):
        # every continuation from the same saved state is a continuation "from a saved final state"
        second = _run(dev, spec, n2, 1, seed_solution=seed)
        which = f"continuation {rep + 1} of {repeat} from the {seed_from} copy of the saved state"
        for j, fr in sorted(second["frames"].items()):
            s = n1 + j
            if s in ff and not _same(ff[s], fr):
                bad = [k for k in KEYS if not np.array_equal(ff[s][k], fr[k])]
                res.fail("C11.resume", f"resumed run (split {n1}+{n2}, {which}) at its step {j} differs from the uninterrupted run's frame {s} in {bad}")
                break
        if not _same(full["final"], second["final"]):
            res.fail("C11.resume_final", f"final state of the resumed run (split {n1}+{n2}, {which}) differs from the uninterrupted run")
        if len(second["dt"]) != n2 or not np.array_equal(second["dt"], full["dt"][n1:]):
            res.fail("C11.resume_dt", f"resumed run ({which}) made {len(second['dt'])} steps, expected {n2} equal to the tail of the uninterrupted run")
        # (whether continuing alters the in-memory saved state is only labelled: the property is about the frames, and a
        #  change that matters shows up in the next continuation from the same state)
        now = {k: np.array(getattr(seed.tdgl_data, k)) for k in KEYS}
        if not _same(saved, now):
            res.label("continuing altered the in-memory saved state")
        if res.violations:
            break
    return res
