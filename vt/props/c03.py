"""C03 - finite-volume operators obey the discrete calculus identities."""
import numpy as np
from hypothesis import strategies as st

from .. import gen, meshgen
from ..engine import Result

PID = "C03"
TITLE = "Finite-volume operators obey the discrete calculus identities"
LEVEL = "exploration"
TECHNIQUE = "algebraic identities (Laplacian = div grad, divergence theorem, symmetry/definiteness/null space, Hermiticity, exactness on linear functions) checked on Hypothesis-generated meshes, weights, potentials and fields"
RULE = (
    "mesh from {Device.make_mesh of a generated device (holes, unions, smoothing), perturbed structured grid, Delaunay of generated "
    "points, annulus}, optionally with generated positive areas / dual lengths; generated link exponents and site/edge/boundary "
    "fields; non-trivial = >= 20 sites with at least one interior site; distinct by spec hash"
    "; optional history: smoothed copy requested and original used; every builder result rescaled in place and built again"
)
ASSUMPTIONS = [
    "meshes with a non-positive or non-finite Voronoi cell area are outside the quantifier ('all positive cell areas') and are discarded, counted",
    "dense eigen-decomposition (numpy.linalg.eigvalsh) is trusted for <= 700 sites",
]
LEVEL_TEXT = (
    "Each identity is an exact algebraic statement about the assembled sparse matrices, so a single generated mesh checks it "
    "for every site/edge of that mesh; Hypothesis varies the mesh source, the weights, the potentials and the fields."
)
LEVEL_NOTE = "Trusted: numpy/scipy linear algebra; tolerances 1e-11 relative to the magnitude of the summed terms (observed 1e-15)."

TOL = 1e-11


def budget(tier):
    if tier == "quick":
        return dict(max_examples=450, workers=8, time_s=170, min_cases=150)
    return dict(max_examples=20000, workers=16, time_s=1200, min_cases=300)


@st.composite
def _case(draw, tier):
    return dict(mesh=draw(meshgen.mesh_spec(tier)), A=draw(meshgen.field_coefs(2)), f=draw(meshgen.field_coefs(3)),
                lin=[draw(gen.rf(-2, 2)), draw(gen.rf(-2, 2)), draw(gen.rf(-2, 2))], ascale=draw(gen.rf(0.0, 3.0)),
                smooth_copy=draw(st.sampled_from([0, 0, 0, 1, 4])))


def strategy(tier):
    return _case(tier)


def check_case(spec):
    from tdgl.finite_volume import operators as ops

    res = Result()
    mesh, info = meshgen.make_mesh(spec["mesh"])
    if mesh is None:
        ms = spec["mesh"]
        if ms["src"] == "grid" and ms.get("jitter") == 0 and "refused" in str(info):
            # an exactly structured grid (right triangles, or its Delaunay triangulation) is a valid Delaunay triangulation
            # whose cells are convex: refusing it is not a documented refusal
            res.fail("C03.structured_grid_refused", f"Mesh.from_triangulation refused a structured {ms['nx']}x{ms['ny']} grid ({ms['diag']} diagonals): {info}")
            res.nontrivial = True
            return res
        res.label(f"discarded: {info}")
        return res
    em = mesh.edge_mesh
    n, m = len(mesh.sites), len(em.edges)
    interior = n - len(mesh.boundary_indices)
    res.label(f"src={info['src']}", "holes" if info.get("holes") else "simply connected")
    if info.get("synthetic"):
        res.label("synthetic weights")
    if info.get("scaled"):
        res.label("scaled coordinates (1e-6..1e8)")
    res.nontrivial = n >= 20 and interior >= 1
    a = mesh.areas

    if spec.get("smooth_copy"):
        # a relaxed copy was requested through the documented Mesh.smooth() (returns a new mesh); the original is used afterwards
        try:
            mesh.smooth(int(spec["smooth_copy"]))
        except ValueError as exc:
            if "Malformed Voronoi" not in str(exc):
                raise
            res.label("smoothed copy refused (malformed Voronoi cell)")
        res.label("history: smoothed copy requested, original used")
    # the builders hand out independent matrices: a caller that rescales what it got in place (e.g. `gradient /= xi`) must not
    # change what the next call returns
    first = [ops.build_divergence(mesh), ops.build_gradient(mesh), ops.build_laplacian(mesh)[0], ops.build_neumann_boundary_laplacian(mesh)]
    keep = [m.copy() for m in first]
    for m in first:
        m.data *= 2.5
    again = [ops.build_divergence(mesh), ops.build_gradient(mesh), ops.build_laplacian(mesh)[0], ops.build_neumann_boundary_laplacian(mesh)]
    for name, k0, a1 in zip(("divergence", "gradient", "laplacian", "boundary operator"), keep, again):
        if k0.shape != a1.shape or abs(k0 - a1).max() != 0:
            res.fail("C03.builder_aliasing", f"the {name} built a second time differs from the first build after the caller rescaled the first result in place")
    D = ops.build_divergence(mesh)
    G = ops.build_gradient(mesh)
    L, _ = ops.build_laplacian(mesh)
    B = ops.build_neumann_boundary_laplacian(mesh)

    def rel(err, scale):
        return float(err / (scale + 1e-300))

    # 1. Laplacian == divergence of the gradient, entry by entry
    DG = (D @ G).toarray()
    Ld = L.toarray()
    scale = np.abs(D).dot(np.abs(G)).toarray().max()
    r = rel(np.abs(Ld - DG).max(), scale)
    res.stat("lap_vs_divgrad", r)
    if r > TOL:
        res.fail("C03.laplacian_is_div_grad", f"max entry difference {r:.2e} (relative)")

    # 2. area-weighted sum of the divergence of any edge field vanishes
    F = meshgen.make_field(spec["f"][0], em.centers)
    r = rel(abs(np.sum(a * (D @ F))), np.sum(a * (np.abs(D) @ np.abs(F))))
    res.stat("div_sum", r)
    if r > TOL:
        res.fail("C03.divergence_sums_to_zero", f"sum_i a_i (div F)_i = {r:.2e} relative to the summed magnitudes")

    # 3. boundary-flux operator integrates to sum of edge length times flux
    nb = len(em.boundary_edge_indices)
    if nb:
        bc = em.centers[em.boundary_edge_indices]
        fb = meshgen.make_field(spec["f"][1], bc)
        lens = em.edge_lengths[em.boundary_edge_indices]
        lhs = np.sum(a * (B @ fb))
        rhs = np.sum(lens * fb)
        r = rel(abs(lhs - rhs), np.sum(lens * np.abs(fb)))
        res.stat("boundary_flux", r)
        if r > TOL:
            res.fail("C03.boundary_flux_integral", f"sum a_i (B f)_i = {lhs:.6g} but sum len_e f_e = {rhs:.6g}")
        if B.shape != (n, nb):
            res.fail("C03.boundary_flux_integral", f"boundary operator has shape {B.shape}, expected {(n, nb)}")

    # 4. area-weighted scalar Laplacian: symmetric, negative semi-definite, kernel = constants
    M = a[:, None] * Ld
    s = np.abs(M).max()
    r = rel(np.abs(M - M.T).max(), s)
    res.stat("symmetry", r)
    if r > TOL:
        res.fail("C03.symmetric", f"diag(a) L is not symmetric: {r:.2e}")
    r = rel(np.abs(Ld @ np.ones(n)).max(), np.abs(Ld).sum(axis=1).max())
    res.stat("constants_in_kernel", r)
    if r > TOL:
        res.fail("C03.annihilates_constants", f"L 1 = {r:.2e} relative to the row sums of |L|")
    if n <= 700:
        ev = np.linalg.eigvalsh((M + M.T) / 2)
        escale = np.abs(ev).max()
        if ev.max() > 1e-9 * escale:
            res.fail("C03.negative_semidefinite", f"largest eigenvalue {ev.max():.3e} > 0 (scale {escale:.3e})")
        nzero = int(np.sum(np.abs(ev) <= 1e-9 * escale))
        if meshgen.is_connected(mesh) and nzero != 1:
            res.fail("C03.kernel_is_constants", f"{nzero} zero eigenvalues on a connected mesh")
        res.stat("max_eigenvalue/scale", float(max(ev.max(), 0) / escale))

    # 5. covariant Laplacian Hermitian in the area-weighted inner product, for any A
    A = np.stack([meshgen.make_field(spec["A"][0], em.centers), meshgen.make_field(spec["A"][1], em.centers)], axis=1) * spec["ascale"]
    LA, _ = ops.build_laplacian(mesh, link_exponents=A)
    MA = a[:, None] * LA.toarray()
    r = rel(np.abs(MA - MA.conj().T).max(), np.abs(MA).max())
    res.stat("hermiticity", r)
    if r > TOL:
        res.fail("C03.covariant_hermitian", f"diag(a) L_A is not Hermitian: {r:.2e}")
    if spec["ascale"] > 0:
        res.label("non-zero A")
        # with A = 0 the covariant operators reduce to the scalar ones
    L0, _ = ops.build_laplacian(mesh, link_exponents=np.zeros_like(A))
    if np.abs(L0.toarray() - Ld).max() > TOL * np.abs(Ld).max():
        res.fail("C03.covariant_reduces_to_scalar", "L_{A=0} differs from the scalar Laplacian")
    G0 = ops.build_gradient(mesh, link_exponents=np.zeros_like(A))
    if np.abs(G0.toarray() - G.toarray()).max() > TOL * np.abs(G).max():
        res.fail("C03.covariant_reduces_to_scalar", "Grad_{A=0} differs from the scalar gradient")

    # 5b. the covariant operators *in use* (stateful MeshOperators, refreshed in place) are Hermitian as well and equal the builders,
    #     whatever the pinned-site argument (None, empty) and with pinning disabled
    from tdgl.finite_volume.operators import MeshOperators
    from tdgl.solver.options import SparseSolver

    for fixed_arg, fix_psi in ((None, True), (np.array([], dtype=np.int64), True), (np.array([0, n - 1], dtype=np.int64), False)):
        mo = MeshOperators(mesh, SparseSolver.SUPERLU, fixed_sites=fixed_arg, fix_psi=fix_psi)
        # several refreshes with different potentials (a solver refreshes every step / screening iteration); the last one counts
        mo.set_link_exponents(0.5 * A[::-1].copy() + 0.1)
        mo.set_link_exponents(-0.3 * A + 0.05)
        mo.set_link_exponents(0.0 * A)
        mo.set_link_exponents(A)
        MO = a[:, None] * mo.psi_laplacian.toarray()
        r = rel(np.abs(MO - MO.conj().T).max(), np.abs(MO).max())
        res.stat("hermiticity_in_use", r)
        if r > TOL:
            res.fail("C03.covariant_hermitian_in_use", f"diag(a) L_A of a MeshOperators refreshed in place (fixed_sites={'None' if fixed_arg is None else len(fixed_arg)}, fix_psi={fix_psi}) is not Hermitian: {r:.2e}")
        r = rel(np.abs(mo.psi_laplacian.toarray() - LA.toarray()).max(), np.abs(LA.toarray()).max())
        if r > TOL:
            res.fail("C03.covariant_in_use_equals_builder", f"psi_laplacian of a refreshed MeshOperators differs from build_laplacian for the same potential by {r:.2e}")
        GA = ops.build_gradient(mesh, link_exponents=A)
        r = rel(np.abs(mo.psi_gradient.toarray() - GA.toarray()).max(), np.abs(GA.toarray()).max())
        if r > TOL:
            res.fail("C03.covariant_in_use_equals_builder", f"psi_gradient of a refreshed MeshOperators differs from build_gradient for the same potential by {r:.2e}")

    # 6. gradient exact on linear functions
    al, be, c0 = spec["lin"]
    f = al * mesh.sites[:, 0] + be * mesh.sites[:, 1] + c0
    unit = em.directions / np.linalg.norm(em.directions, axis=1)[:, None]
    want = unit @ np.array([al, be])
    got = G @ f
    r = rel(np.abs(got - want).max(), (abs(al) + abs(be)) + np.abs(f).max() / em.edge_lengths.min() * 1e-3)
    res.stat("gradient_linear", r)
    if r > 1e-9:
        res.fail("C03.gradient_exact_on_linear", f"max error {np.abs(got - want).max():.3e}")
    # edge geometry consistency used by all of the above
    d = mesh.sites[em.edges[:, 1]] - mesh.sites[em.edges[:, 0]]
    if np.abs(d - em.directions).max() > 1e-12 * np.abs(d).max() or np.abs(np.linalg.norm(d, axis=1) - em.edge_lengths).max() > 1e-12 * np.abs(d).max():
        res.fail("C03.edge_vectors", "edge directions / lengths are not those of the site pairs")
    return res
