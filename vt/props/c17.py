"""C17 - the uniform superconducting state is exactly stationary."""
import numpy as np
from hypothesis import strategies as st

from .. import build, gen, meshgen, sim
from ..engine import Result

PID = "C17"
TITLE = "The uniform superconducting state is exactly stationary"
LEVEL = "exploration"
TECHNIQUE = "undriven whole simulations on generated meshes (device meshes, perturbed grids, random Delaunay, annuli); invariant over every recorded frame with a tolerance far below any O(dt) drift"
RULE = (
    "case = mesh from {generated device (holes, terminals free or held at psi = 1, smoothing), perturbed grid, Delaunay of generated points, annulus} x gamma/u "
    "x adaptive on/off x screening on/off, 30..200 steps with dt below the explicit stability scale; non-trivial = irregular mesh "
    "(edge-length spread > 2) with >= 50 sites; distinct by spec hash"
    "; the device may have been used before for an ordinary driven run"
)
ASSUMPTIONS = [
    "'exactly' is read as: max|psi-1|, |Js|, |Jn|, ptp(mu) <= 1e-9 and |A_induced| <= 1e-12 in every frame (row sums of the assembled Laplacian are ~1e-13, bit-exactness cannot be demanded of floating-point sums)",
    "dt_max <= 0.5 u/(sqrt(1+gamma^2) rho_Gershgorin): beyond the explicit stability limit rounding noise is amplified, which is the user's documented obligation",
]
LEVEL_TEXT = "Each run checks the invariant at every site and edge of every recorded frame; Hypothesis varies the mesh source and irregularity, material constants and options."
LEVEL_NOTE = "Trusted: the harness's stability-scale precondition; tolerance 1e-9 (a wrong sign or a missing weight produces drift >= 1e-4 within 30 steps)."


def budget(tier):
    if tier == "quick":
        return dict(max_examples=1000, workers=8, time_s=170, min_cases=250)
    return dict(max_examples=40000, workers=16, time_s=1200, min_cases=500)


@st.composite
def _case(draw, tier):
    scr = draw(st.integers(0, 3)) == 0
    ms = draw(meshgen.mesh_spec(tier, sources=("device", "device", "grid", "delaunay", "ring"), synthetic=False))
    if ms["src"] == "device":
        # regenerate with terminals and screening-compatible layer
        ms = dict(src="device", device=draw(gen.device(terminals=(0, 3), holes=(0, 2), probes=(0, 2), film_kinds=("box", "ellipse", "union"),
                                                       size=(3.5, 6.5), screening=scr).filter(gen.valid_device)))
        lay = None
    else:
        lay = draw(gen.layer(scr))
    adaptive = draw(st.booleans())
    # "epsilon = 1 everywhere" stated as a number, as a function of position, or as a function of position and time
    eps = draw(st.sampled_from(["number", "number", "callable", "timedep"]))
    # the device may have been used before, in the same process, for an ordinary driven run with the default contacts
    earlier = draw(st.integers(0, 3)) == 0
    return dict(mesh=ms, layer=lay, epsilon=eps, earlier_run=earlier,
                options=dict(dt_c=draw(gen.logu(-3, 0)) * 0.5, dtmax_c=draw(gen.rf(0.1, 0.5)), adaptive=adaptive, adaptive_window=draw(st.integers(1, 10)),
                             include_screening=scr, screening_tolerance=draw(st.sampled_from([1e-3, 1e-4])),
                             nsteps_nominal=draw(st.integers(30, 60 if tier == "quick" else 200)), save_every=draw(st.integers(1, 25)),
                             # terminals left free, or held at the uniform value itself
                             terminal_psi=draw(st.sampled_from([None, None, 1.0, 1])), field_units=draw(st.sampled_from(gen.FIELD_UNITS)), current_units=draw(st.sampled_from(gen.CURRENT_UNITS))))


def strategy(tier):
    return _case(tier)


def device_for_mesh(mesh, layer_spec):
    """A Device carrying a harness-made mesh through the public ``mesh`` attribute."""
    import tdgl

    lay = tdgl.Layer(london_lambda=layer_spec["lam"], coherence_length=1.0, thickness=layer_spec["d"], gamma=layer_spec["gamma"],
                     u=layer_spec["u"], z0=layer_spec.get("z0", 0.0))
    lo, hi = mesh.sites.min(axis=0) - 1, mesh.sites.max(axis=0) + 1
    film = tdgl.Polygon("film", points=np.array([[lo[0], lo[1]], [hi[0], lo[1]], [hi[0], hi[1]], [lo[0], hi[1]]]))
    dev = tdgl.Device("synthetic", layer=lay, film=film, length_units="um")
    dev.mesh = mesh
    return dev


def check_case(spec):
    res = Result()
    if spec["mesh"]["src"] == "device":
        dev = build.make_device_or_refuse(spec["mesh"]["device"])
        mesh = dev.mesh
    else:
        mesh, info = meshgen.make_mesh(spec["mesh"])
        if mesh is None:
            res.label(f"discarded: {info}")
            return res
        dev = device_for_mesh(mesh, spec["layer"])
    el = mesh.edge_mesh.edge_lengths
    spread = float(el.max() / el.min())
    res.label(f"src={spec['mesh']['src']}", "screening" if spec["options"]["include_screening"] else "no screening",
              "adaptive" if spec["options"]["adaptive"] else "fixed dt")
    res.nontrivial = spread > 2 and len(mesh.sites) >= 50
    if spread > 2:
        res.label("irregular (edge spread > 2)")
    o = dict(spec["options"])
    n_nom = o.pop("nsteps_nominal")
    dts = build.stable_dt(dev)
    o["dt_c"] = min(o["dt_c"], o["dtmax_c"])
    dt_init = o["dt_c"] * dts
    dt_max = max(o["dtmax_c"] * dts, dt_init)
    o["solve_time"] = (n_nom - 0.5) * (dt_max if o["adaptive"] else dt_init)
    with sim.workdir():
        if spec.get("earlier_run"):
            res.label("device used before for an ordinary driven run (default contacts)")
            o0 = dict(o, terminal_psi=0.0, solve_time=3.5 * dt_init, adaptive=False, save_every=100)
            try:
                import tdgl

                build.make_solver(dev, build.make_options(o0, dev, output_file="earlier.h5"),
                                  applied_vector_potential=tdgl.sources.ConstantField(0.1 * float(dev.Bc2.to(o0["field_units"]).magnitude), field_units=o0["field_units"],
                                                                                     length_units=dev.length_units)).solve()
            except (RuntimeError, ValueError) as exc:
                if "converge" not in str(exc) and "does not contain any points" not in str(exc):
                    raise
                res.label("earlier run did not complete (documented refusal)")
        opts = build.make_options(o, dev, output_file="out.h5")
        ek = spec.get("epsilon", "number")
        res.label(f"epsilon given as {ek}", f"terminal_psi={o.get('terminal_psi')!r}")
        eps = 1.0 if ek == "number" else build.make_epsilon(dict(kind=ek, x0=0.0, y0=0.0, radius=1.0, lo=1.0))
        # a stationary state needs n_nom steps (plus the warm-up window when adaptive); a run that needs many times more has left it
        solver = build.make_solver(dev, opts, disorder_epsilon=eps, max_steps=5 * int(n_nom) + 100)
        try:
            sol = solver.solve()
        except RuntimeError as exc:
            if "converge" in str(exc):
                res.fail("C17.refused", f"undriven uniform state made the solver give up: {exc}")
                return res
            raise
        frames, _ = sim.read_frames(sol.path)
        dts_rec = np.array(sol.dynamics.dt)
    for fr in frames:
        s = int(fr["attrs"]["step"])
        vals = dict(psi=float(np.max(np.abs(fr["psi"] - 1))), Js=float(np.max(np.abs(fr["supercurrent"]))),
                    Jn=float(np.max(np.abs(fr["normal_current"]))), mu=float(np.ptp(fr["mu"])),
                    A_ind=float(np.max(np.abs(fr["induced_vector_potential"]))))
        for k, v in vals.items():
            res.stat(f"max_{k}", v)
        bad = {k: v for k, v in vals.items() if v > (1e-12 if k == "A_ind" else 1e-9) or not np.isfinite(v)}
        if bad:
            res.fail("C17.not_stationary", f"step {s}: {bad} (|psi-1|, |Js|, |Jn|, ptp(mu), |A_induced| should vanish); dt={dt_init:.3g}..{dt_max:.3g}, stability scale {dts:.3g}")
            break
    if o["adaptive"] and not res.violations:
        w = int(o["adaptive_window"])
        tail = dts_rec[w + 2:]
        if len(tail) and not np.all(tail == opts.dt_max):
            res.fail("C17.dt_not_maximal", f"adaptive step after the window is {tail[:5]} instead of dt_max={opts.dt_max!r}")
        if len(tail):
            res.label("dt reached dt_max")
    return res
