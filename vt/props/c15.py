"""C15 - a stopped simulation leaves a clean, readable, truthful output (fault enumeration)."""
import builtins
import hashlib
import os

import h5py
import numpy as np

from .. import build, sim
from ..engine import Result
from .c05 import BASE_DEVICE, PROBES

PID = "C15"
TITLE = "A stopped simulation leaves a clean, readable, truthful output"
LEVEL = "fault_enumeration"
TECHNIQUE = "exhaustive fault injection: an exception or KeyboardInterrupt is raised at the entry of every update call (both stages) and of every frame write of bounded runs; the file system and the returned object are compared with a reference model of the runner cut at that point"
RULE = (
    "enumerated grid: run length N in 1..Nmax (5 quick, 8 thorough) x save_every in {1,2,3,N,N+1} x thermalisation {off, 2 steps} x injection point "
    "{entry of update call g for every g in both stages (and one past the end = no fault), entry of frame write w for every w, middle of frame write w for every w} x {RuntimeError, "
    "KeyboardInterrupt}; output path explicit/None, pre-existing files at the path ({}, out.h5, out.h5+out-1.h5, out-1.h5, stale out.h5.tmp, stale .tmp next to a taken serial name) and "
    "pause_on_interrupt (answering 'n') are rotated over the grid; non-trivial = the stop happens at a step >= 1 with at least one frame already written"
    "; plus the fresh-name rule for nine spellings of the requested path x {0,1,2} names taken, each under a 60 s alarm"
)
ASSUMPTIONS = [
    "faults are injected at the entry of TDGLSolver.update (instance wrapper), at the entry of DataHandler.save_time_step and in the middle of it (after the frame's group and first dataset were written; class attribute / module function patched inside the harness process)",
    "answering 'y' to the pause prompt (resume) is not covered by the property and not generated",
    "a KeyboardInterrupt striking outside the stepping loop (only possible in the very last, partial frame write) may propagate; a cancellation before any frame exists has no usable partial solution and only the file-system predicates are asserted there",
    "each case runs in a private working directory and TMPDIR",
]
LEVEL_TEXT = (
    "The bounded space of (run shape x injection point x fault kind) is enumerated completely; for every member the output file, the directory "
    "listing, the pre-existing files and the returned Solution are compared with the reference model.  Fault enumeration over a bounded space."
)
LEVEL_NOTE = "Trusted: the harness's reference model of which frames exist after a cut; h5py; SHA-256 of pre-existing files."

DATASETS = ("psi", "mu", "supercurrent", "normal_current", "induced_vector_potential")
PRE = [[], ["out.h5"], ["out.h5", "out-1.h5"], ["out-1.h5"], ["out.h5.tmp"], ["out.h5", "out.h5.tmp"],
       ["out.h5.tmp", "out-1.h5"], ["out.h5", "out-1.h5.tmp", "out-2.h5"], ["out.h5.tmp", "out-1.h5", "out-2.h5"],
       ["out.h5", "out-1.h5", "out-2.h5"]]


def budget(tier):
    if tier == "quick":
        return dict(max_examples=0, workers=8, time_s=170, min_cases=900)
    return dict(max_examples=0, workers=16, time_s=1200, min_cases=1800)


def grid(tier):
    quick = tier == "quick"
    nmax = 5 if quick else 10
    # every injection point is combined with 3 (quick) or all (thorough) layouts of pre-existing files
    nvar = 3 if quick else len(PRE)
    cases = []
    idx = 0
    for N in range(1, nmax + 1):
        for k in sorted({1, 2, 3, N, N + 1}):
            for T in (0, 2):
                frames = sorted(set(range(0, N + 1, k)) | {N})
                points = ([("update", g) for g in range(T + N + 1)] + [("save", w) for w in range(len(frames) + 1)]
                          + [("save_mid", w) for w in range(len(frames))])
                for where, at in points:
                    for exc in ("RuntimeError", "KeyboardInterrupt"):
                        idx += 1
                        for v in range(nvar):
                            j = idx + v
                            cases.append(dict(N=N, k=k, T=T, where=where, at=at, exc=exc,
                                              output="none" if j % 5 == 0 else "file", pre=PRE[(idx + 3 * v) % len(PRE)] if quick else PRE[v],
                                              pause=(j % 3 == 0), probes=2 if j % 2 else 0))
    # the fresh-name rule for other spellings of the requested path (no fault injected): relative with "./", without an
    # extension, inside a directory whose name contains a dot, inside a directory that does not exist yet
    for spelling in SPELLINGS:
        for taken in (0, 1, 2):
            for N in (1, 3):
                cases.append(dict(kind="naming", spelling=spelling, taken=taken, N=N, k=2))
    return cases


SPELLINGS = ["out.h5", "./out.h5", "run", "./run", "data.v2/run", "data.v2/out.h5", "new dir/sub/out.h5", "out.v1.h5", "../cwd/run.dat"]


class Injected(RuntimeError):
    pass


class Hang(Exception):
    pass


def _naming(spec, res):
    """An uninterrupted short run asked to write to ``spelling`` while 0, 1 or 2 of the names it would use are taken."""
    import signal
    import tdgl

    N, k = spec["N"], spec["k"]
    dev = build.make_device(dict(BASE_DEVICE))
    res.label("naming", f"path spelling {spec['spelling']!r}", f"{spec['taken']} name(s) taken")
    res.nontrivial = spec["taken"] >= 1
    with sim.workdir() as (cwd, tmp):
        P = spec["spelling"]
        pdir = os.path.dirname(P) or "."
        pre_hash = {}

        def snapshot():
            out = []
            for base, dirs, files in os.walk(cwd):
                out += [os.path.relpath(os.path.join(base, f), cwd) for f in files]
            return sorted(out)

        def occupy(path, j):
            os.makedirs(os.path.dirname(path) or ".", exist_ok=True)
            with open(path, "wb") as f:
                f.write(hashlib.sha256(f"{path}{j}".encode()).digest() * 40)
            pre_hash[os.path.relpath(path, cwd)] = _hash(path)

        def run_once():
            opts = build.make_options(dict(dt_c=0.2, nsteps=N, save_every=k, adaptive=False, field_units="mT", current_units="uA"), dev, output_file=P)

            def on_alarm(signum, frame):
                raise Hang("no result after 60 s")

            old = None
            try:
                old = signal.signal(signal.SIGALRM, on_alarm)
                signal.alarm(60)
            except ValueError:
                old = None
            try:
                return tdgl.solve(dev, opts, applied_vector_potential=0.4, terminal_currents=dict(src=5.0, drn=-5.0))
            finally:
                if old is not None:
                    signal.alarm(0)
                    signal.signal(signal.SIGALRM, old)

        # names are taken by earlier identical requests (their outputs are then pre-existing files for the run examined)
        for j in range(spec["taken"]):
            if j == 0:
                occupy(P, j)
            else:
                before = snapshot()
                try:
                    run_once()
                except BaseException as exc:  # noqa: BLE001
                    res.fail("C15.naming_run", f"request {j + 1} for {P!r} with {j} name(s) taken: {type(exc).__name__}: {exc}")
                    return res
                for n in snapshot():
                    if n not in before:
                        pre_hash[n] = _hash(os.path.join(cwd, n))
        before = snapshot()
        try:
            sol = run_once()
        except Hang as exc:
            res.fail("C15.naming_hang", f"output_file={P!r} with {spec['taken']} name(s) taken: the search for a fresh name does not end ({exc})")
            return res
        except BaseException as exc:  # noqa: BLE001
            res.fail("C15.naming_run", f"output_file={P!r} with {spec['taken']} name(s) taken: {type(exc).__name__}: {exc}")
            return res
        after = snapshot()
        for n, h in pre_hash.items():
            if not os.path.exists(os.path.join(cwd, n)) or _hash(os.path.join(cwd, n)) != h:
                res.fail("C15.existing_modified", f"pre-existing file {n} was modified or removed (output_file={P!r})")
        new = [n for n in after if n not in before]
        if len(new) != 1 or new[0].endswith(".tmp"):
            res.fail("C15.directory", f"output_file={P!r}, taken {sorted(pre_hash)}: new files {new}, expected exactly one new output file")
            return res
        want_dir = os.path.normpath(os.path.join(cwd, pdir))
        got = os.path.normpath(os.path.join(cwd, new[0]))
        if os.path.dirname(got) != want_dir:
            res.fail("C15.directory", f"output_file={P!r}: the output {new[0]} is not in the requested directory {pdir}")
        if spec["taken"] == 0 and got != os.path.normpath(os.path.join(cwd, P)):
            res.fail("C15.requested_path", f"output_file={P!r} (free): the output was written to {new[0]}")
        if os.path.normpath(os.path.abspath(sol.path)) != got:
            res.fail("C15.solution_path", f"output_file={P!r}: Solution.path={sol.path!r} but the new file is {new[0]}")
        try:
            L = tdgl.Solution.from_hdf5(got)
            want_frames = len(sorted(set(range(0, N + 1, k)) | {N}))
            if tuple(int(v) for v in L.data_range) != (0, want_frames - 1):
                res.fail("C15.frames", f"output_file={P!r}: the new file holds data range {L.data_range}, expected {want_frames} frames")
        except Exception as exc:  # noqa: BLE001
            res.fail("C15.unreadable", f"output_file={P!r}: the new file {new[0]} cannot be loaded: {type(exc).__name__}: {exc}")
        if sorted(os.listdir(tmp)):
            res.fail("C15.tempdir_left", f"temporary directory entries remain: {sorted(os.listdir(tmp))}")
    return res


def _hash(path):
    with open(path, "rb") as f:
        return hashlib.sha256(f.read()).hexdigest()


def check_case(spec):
    from tdgl.solver.runner import DataHandler

    res = Result()
    if spec.get("kind") == "naming":
        return _naming(spec, res)
    N, k, T = spec["N"], spec["k"], spec["T"]
    d = dict(BASE_DEVICE)
    if spec["probes"]:
        d["probes"] = PROBES[spec["probes"]]
    dev = build.make_device(d)
    exc_type = Injected if spec["exc"] == "RuntimeError" else KeyboardInterrupt
    F = sorted(set(range(0, N + 1, k)) | {N})  # frames of the uninterrupted run
    # ---- reference model of the cut run
    outcome = "solution"
    if spec["where"] == "update":
        g = spec["at"]
        if g >= T + N:
            frames_exp, stop_step = F, None
        elif g < T:
            frames_exp, stop_step = [], None
            outcome = "raise" if exc_type is Injected else "none"
        else:
            s = g - T
            stop_step = s
            before = [i for i in F if i <= s and i % k == 0]
            if exc_type is Injected:
                frames_exp, outcome = before, "raise"
            else:
                frames_exp = sorted(set(before) | {s})
    else:
        # "save": fault at the entry of frame write w; "save_mid": fault in the middle of it (after the frame's group and
        # its first dataset exist).  Either way frame w must not be in the file.
        w = spec["at"]
        if w >= len(F):
            frames_exp, stop_step = F, None
        else:
            frames_exp, stop_step = F[:w], F[w]
            final_partial = (F[w] == N and N % k != 0)
            if exc_type is Injected:
                outcome = "raise"
            elif final_partial:
                outcome = "raise_or_solution"
            elif w == 0:
                outcome = "unspecified"
    res.label(f"inject={spec['where']}", spec["exc"], f"output={spec['output']}", f"pre={'+'.join(spec['pre']) or 'none'}",
              "thermalised" if T else "no thermalisation", f"outcome={outcome}", "pause prompt" if spec["pause"] else "no prompt")
    res.nontrivial = stop_step is not None and stop_step >= 1 and len(frames_exp) >= 1

    with sim.workdir() as (cwd, tmp):
        pre_hash = {}
        for j, name in enumerate(spec["pre"]):
            with open(name, "wb") as f:
                f.write(hashlib.sha256(f"{name}{j}{N}{k}".encode()).digest() * 40)
            pre_hash[name] = _hash(name)
        candidates = ["out.h5", "out-1.h5", "out-2.h5", "out-3.h5"]
        expected_name = next(c for c in candidates if c not in spec["pre"] and (c + ".tmp") not in spec["pre"])
        opts = build.make_options(dict(dt_c=0.2, nsteps=N, skip_steps=T, save_every=k, adaptive=False, field_units="mT", current_units="uA",
                                       pause_on_interrupt=bool(spec["pause"])), dev,
                                  output_file=("out.h5" if spec["output"] == "file" else None))
        solver = build.make_solver(dev, opts, applied_vector_potential=0.4, terminal_currents=dict(src=5.0, drn=-5.0))

        fired = [False]
        ncall = [0]

        def before(idx, state):
            n = ncall[0]
            ncall[0] += 1
            if spec["where"] == "update" and n == spec["at"] and not fired[0]:
                fired[0] = True
                raise exc_type("injected at update")

        hist = sim.record_updates(solver, before=before)
        orig_save = DataHandler.save_time_step
        counter = [0]

        from tdgl.solver import runner as runner_mod

        orig_get = runner_mod._get
        armed = [False]

        def patched(self, state, data, running_state):
            if spec["where"] == "save" and counter[0] == spec["at"] and not fired[0]:
                counter[0] += 1
                fired[0] = True
                raise exc_type("injected at frame write")
            if spec["where"] == "save_mid" and counter[0] == spec["at"] and not fired[0]:
                armed[0] = True
            counter[0] += 1
            try:
                return orig_save(self, state, data, running_state)
            finally:
                armed[0] = False

        nget = [0]

        def patched_get(item):
            # called once per dataset inside the frame writer: fault after the first dataset of the target frame
            if armed[0]:
                nget[0] += 1
                if nget[0] == 2 and not fired[0]:
                    fired[0] = True
                    raise exc_type("injected in the middle of a frame write")
            return orig_get(item)

        DataHandler.save_time_step = patched
        runner_mod._get = patched_get
        orig_enter = DataHandler.__enter__
        handlers = []

        def enter(self):
            handlers.append(self)
            return orig_enter(self)

        DataHandler.__enter__ = enter
        orig_input = builtins.input
        builtins.input = lambda *a, **kw: "n"
        got, sol, err = None, None, None
        try:
            try:
                sol = solver.solve()
                got = "solution" if sol is not None else "none"
            except Injected as exc:
                got, err = "raise", exc
            except KeyboardInterrupt as exc:
                got, err = "raise_ki", exc
            except Exception as exc:  # noqa: BLE001
                got, err = "other_exception", exc
        finally:
            DataHandler.save_time_step = orig_save
            runner_mod._get = orig_get
            DataHandler.__enter__ = orig_enter
            builtins.input = orig_input
        # ---- the writer's file handles are closed whatever happened
        for hnd in handlers:
            for nm in ("output_file", "tmp_file"):
                fobj = getattr(hnd, nm, None)
                if fobj is not None and bool(fobj):
                    res.fail("C15.not_closed", f"the {nm} handle is still open after solve() ended with '{got}'")

        # ---- outcome
        ok_outcomes = {"solution": {"solution"}, "none": {"none"}, "raise": {"raise"} if exc_type is Injected else {"raise_ki"},
                       "raise_or_solution": {"raise_ki", "solution"}, "unspecified": {"solution", "none", "raise_ki", "other_exception"}}[outcome]
        if got not in ok_outcomes:
            res.fail("C15.outcome", f"N={N} k={k} T={T} {spec['exc']} at {spec['where']} {spec['at']}: solve() ended with '{got}'"
                     f"{'' if err is None else f' ({type(err).__name__}: {err})'}, expected {sorted(ok_outcomes)}")
        # ---- file system
        listing = sorted(os.listdir(cwd))
        tmp_left = sorted(os.listdir(tmp))
        if tmp_left:
            res.fail("C15.tempdir_left", f"temporary directory entries remain: {tmp_left}")
        for name, h in pre_hash.items():
            if not os.path.exists(name) or _hash(name) != h:
                res.fail("C15.existing_modified", f"pre-existing file {name} was modified or removed")
        new = [n for n in listing if n not in pre_hash]
        if spec["output"] == "file":
            if new != [expected_name]:
                res.fail("C15.directory", f"directory holds {listing} after the run; pre-existing {sorted(pre_hash)}, expected exactly one new file {expected_name}")
        else:
            if new:
                res.fail("C15.directory", f"output_file=None but new files appeared in the working directory: {new}")
        if any(n.endswith(".tmp") for n in new):
            res.fail("C15.tmp_left", f"temporary file(s) left behind: {[n for n in new if n.endswith('.tmp')]}")
        # ---- the output file
        if spec["output"] == "file" and expected_name in listing:
            try:
                with h5py.File(expected_name, "r") as f:
                    keys = sorted(f["data"].keys(), key=int) if "data" in f else []
                    frames = []
                    for key in keys:
                        g = f["data"][key]
                        missing = [dn for dn in DATASETS if dn not in g]
                        attrs = dict(g.attrs)
                        if missing or any(a not in attrs for a in ("step", "time", "dt", "timestamp")):
                            res.fail("C15.incomplete_frame", f"frame group {key} is incomplete: missing datasets {missing}, attrs {sorted(attrs)}")
                            continue
                        fr = dict(step=int(attrs["step"]), time=float(attrs["time"]), digest=sim.frame_digest({dn: np.array(g[dn]) for dn in DATASETS}))
                        if "running_state" in g:
                            dt = np.atleast_1d(np.array(g["running_state"]["dt"]))
                            fr["nrec"] = int(np.sum(dt > 0))
                        frames.append(fr)
                    has_mesh = "mesh" in f
            except Exception as exc:  # noqa: BLE001
                res.fail("C15.unreadable", f"output file cannot be opened/read after the stop: {type(exc).__name__}: {exc}")
                frames, has_mesh = None, False
            if frames is not None:
                steps = [fr["step"] for fr in frames]
                if steps != frames_exp:
                    res.fail("C15.frames", f"N={N} k={k} T={T} {spec['exc']} at {spec['where']} {spec['at']}: file holds frames {steps}, the run cut at that point must hold {frames_exp}")
                else:
                    rec = [c for c in hist.calls if "dt" in c]
                    stages = []
                    cur = []
                    for c in rec:
                        if c["step"] == 0 and cur:
                            stages.append(cur)
                            cur = []
                        cur.append(c)
                    if cur:
                        stages.append(cur)
                    rec_calls = stages[-1] if (stages and (not T or len(stages) == 2)) else ([] if T else (stages[-1] if stages else []))
                    prev = 0
                    tacc = 0
                    times = [0]
                    for c in rec_calls:
                        tacc = tacc + c["dt"]
                        times.append(tacc)
                    for fr in frames:
                        s = fr["step"]
                        if s > 0:
                            if s - 1 < len(rec_calls) and fr["digest"] != rec_calls[s - 1]["digest"]:
                                res.fail("C15.frame_content", f"frame labelled step {s} does not hold the state after {s} updates")
                            if fr.get("nrec") != s - prev:
                                res.fail("C15.frame_records", f"frame step {s} carries {fr.get('nrec')} per-step records, expected {s - prev}")
                            if s < len(times) and fr["time"] != float(times[s]):
                                res.fail("C15.frame_time", f"frame step {s} has time {fr['time']!r}, expected {float(times[s])!r}")
                        prev = s
        # ---- the returned partial solution is usable
        if got == "solution" and outcome in ("solution", "raise_or_solution"):
            try:
                if spec["output"] == "file":
                    lo, hi = sol.data_range
                    if (int(lo), int(hi)) != (0, len(frames_exp) - 1):
                        res.fail("C15.solution_range", f"partial solution reports data_range {sol.data_range}, file has {len(frames_exp)} frames")
                    for j in range(len(frames_exp)):
                        sol.solve_step = j
                        if int(sol.tdgl_data.state["step"]) != frames_exp[j]:
                            res.fail("C15.solution_frame", f"partial solution frame {j} is labelled step {sol.tdgl_data.state['step']}, expected {frames_exp[j]}")
                    _ = sol.times
                    _ = sol.dynamics.dt
                else:
                    if int(sol.tdgl_data.state["step"]) != frames_exp[-1]:
                        res.fail("C15.solution_frame", f"in-memory partial solution is at step {sol.tdgl_data.state['step']}, expected {frames_exp[-1]}")
                if not np.all(np.isfinite(sol.tdgl_data.psi)):
                    res.fail("C15.solution_data", "partial solution holds non-finite data")
            except Exception as exc:  # noqa: BLE001
                res.fail("C15.solution_unusable", f"the returned partial solution cannot be used: {type(exc).__name__}: {exc}")
    return res
