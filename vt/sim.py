"""Running simulations from the harness: history capture by wrapping the documented
``TDGLSolver.update`` of one solver instance, raw frame reading, private work directories."""
from __future__ import annotations

import contextlib
import os
import shutil
import tempfile

import h5py
import numpy as np

from . import oracles as orc


@contextlib.contextmanager
def workdir(prefix="vtcase_"):
    """Private cwd + TMPDIR for one case; removed afterwards."""
    old_cwd = os.getcwd()
    old_tmp = os.environ.get("TMPDIR")
    base = tempfile.mkdtemp(prefix=prefix, dir=os.environ.get("VT_SCRATCH", None))
    cwd = os.path.join(base, "cwd")
    tmp = os.path.join(base, "tmp")
    os.makedirs(cwd)
    os.makedirs(tmp)
    os.chdir(cwd)
    os.environ["TMPDIR"] = tmp
    tempfile.tempdir = None
    try:
        yield cwd, tmp
    finally:
        os.chdir(old_cwd)
        if old_tmp is None:
            os.environ.pop("TMPDIR", None)
        else:
            os.environ["TMPDIR"] = old_tmp
        tempfile.tempdir = None
        shutil.rmtree(base, ignore_errors=True)


class History:
    """Per-call record of solver.update: label given, dt returned, digests / copies of results."""

    def __init__(self, keep_arrays=False):
        self.calls = []
        self.keep_arrays = keep_arrays

    def stage_split(self):
        """Split calls into stages: a new stage starts whenever the step label returns to 0."""
        stages, cur = [], []
        for c in self.calls:
            if c["step"] == 0 and cur:
                stages.append(cur)
                cur = []
            cur.append(c)
        if cur:
            stages.append(cur)
        return stages


def record_updates(solver, keep_arrays=False, before=None):
    """Wrap ``solver.update`` (instance attribute) so that each call is recorded.
    ``before(call_index, state)`` may raise to inject a stop at the entry of a call."""
    hist = History(keep_arrays)
    orig = solver.update
    # number of calls of the documented get_induced_vector_potential during each update (= screening iterations made)
    counter = [0]
    orig_giv = solver.get_induced_vector_potential

    def giv(*a, **kw):
        counter[0] += 1
        return orig_giv(*a, **kw)

    solver.get_induced_vector_potential = giv

    def update(state, running_state, dt, **kw):
        idx = len(hist.calls)
        if before is not None:
            before(idx, dict(state))
        rec = dict(step=int(state["step"]), time=float(state["time"]), dt_in=float(dt),
                   rs_step=int(running_state.step))
        counter[0] = 0
        try:
            out = orig(state, running_state, dt, **kw)
        except BaseException as exc:  # noqa: BLE001
            rec["raised"] = type(exc).__name__
            hist.calls.append(rec)
            raise
        rec["dt"] = float(out.dt)
        rec["screening_calls"] = counter[0]
        rec["digest"] = orc.digest(out.psi, out.mu, out.supercurrent, out.normal_current, out.A_induced)
        rec["in_digest"] = orc.digest(kw["psi"], kw["mu"], kw["supercurrent"], kw["normal_current"],
                                      kw["induced_vector_potential"])
        if keep_arrays:
            rec["psi"] = np.array(out.psi)
            rec["mu"] = np.array(out.mu)
            rec["supercurrent"] = np.array(out.supercurrent)
            rec["normal_current"] = np.array(out.normal_current)
            rec["A_induced"] = np.array(out.A_induced)
            rec["psi_in"] = np.array(kw["psi"])
        if solver.probe_points is not None:
            rec["probe_mu"] = np.array(out.mu)[solver.probe_points].copy()
            rec["probe_theta"] = np.angle(np.array(out.psi)[solver.probe_points])
        hist.calls.append(rec)
        return out

    solver.update = update
    return hist


def read_frames(path):
    """All frames of an output file, in file order: attrs, datasets, running_state."""
    frames = []
    with h5py.File(path, "r") as f:
        keys = sorted(f["data"].keys(), key=int)
        for k in keys:
            g = f["data"][k]
            fr = dict(key=int(k), attrs={a: g.attrs[a] for a in g.attrs})
            for name in g:
                if name == "running_state":
                    fr["running_state"] = {n: np.array(g["running_state"][n]) for n in g["running_state"]}
                else:
                    fr[name] = np.array(g[name])
            frames.append(fr)
        fixed = {n: np.array(f[n]) for n in f if n not in ("data", "mesh", "solution", "version_info")
                 and isinstance(f[n], h5py.Dataset)}
    return frames, fixed


def frame_digest(fr):
    return orc.digest(fr["psi"], fr["mu"], fr["supercurrent"], fr["normal_current"],
                      fr["induced_vector_potential"])


def running_columns(fr):
    """Valid per-step record columns of a frame (the writer pads unused slots with dt = 0)."""
    rs = fr.get("running_state")
    if rs is None:
        return None
    dt = np.atleast_1d(rs["dt"])
    mask = dt > 0
    out = {"dt": dt[mask]}
    for k, v in rs.items():
        if k == "dt":
            continue
        v = np.asarray(v)
        if v.ndim == 0:
            v = v.reshape(1)
        if v.ndim == 1 and len(v) == len(dt):
            out[k] = v[mask]
        elif v.ndim == 2 and v.shape[1] == len(dt):
            out[k] = v[:, mask]
        elif v.ndim == 1 and len(dt) == 1:
            out[k] = v.reshape(-1, 1)[:, mask]
        else:
            out[k] = v
    return out
