"""Shared Hypothesis strategies producing JSON case specs (built by construction)."""
from __future__ import annotations

import math

import numpy as np
from hypothesis import strategies as st

from . import oracles as orc


def rf(lo, hi, digits=3):
    """floats in [lo, hi] rounded to a few significant digits (tidy, shrinkable specs)."""
    return st.floats(lo, hi, allow_nan=False, allow_infinity=False).map(
        lambda v: min(hi, max(lo, float(f"{v:.{digits}g}")))
    )


def logu(lo_exp, hi_exp):
    return st.tuples(st.floats(1.0, 9.99), st.integers(lo_exp, hi_exp - 1)).map(
        lambda t: float(f"{t[0] * 10.0 ** t[1]:.3g}")
    )


LENGTH_UNITS = ["um", "nm", "mm"]
FIELD_UNITS = ["mT", "uT", "T"]
CURRENT_UNITS = ["uA", "nA", "mA"]


@st.composite
def layer(draw, screening=False):
    xi = draw(st.sampled_from([0.5, 1.0]) | rf(0.2, 2.0))
    if screening:
        lam = draw(rf(1.5, 4.0))
        d = draw(rf(0.02, 0.1))
    else:
        lam = draw(rf(0.5, 4.0))
        d = draw(rf(0.02, 0.5))
    gamma = draw(st.sampled_from([0.0, 1.0, 10.0]) | rf(0.1, 20.0))
    u = draw(st.sampled_from([1.0, 5.79]) | rf(0.5, 10.0))
    z0 = draw(st.sampled_from([0.0, 0.0, 0.3, -1.0]))
    return dict(xi=xi, lam=lam, d=d, gamma=gamma, u=u, z0=z0)


def _rot(pt, deg, origin):
    t = math.radians(deg)
    x, y = pt[0] - origin[0], pt[1] - origin[1]
    return [origin[0] + x * math.cos(t) - y * math.sin(t), origin[1] + x * math.sin(t) + y * math.cos(t)]


@st.composite
def device(draw, terminals=(0, 0), holes=(0, 0), probes=(0,), film_kinds=("box", "ellipse"),
           size=(3.5, 8.0), screening=False, allow_rot=True, lshape=True, smooth=True,
           min_mel=0.7, max_mel=1.5, lu=None):
    """Device spec.  All lengths are stored in length units (already multiplied by xi)."""
    lay = draw(layer(screening))
    xi = lay["xi"]
    kind = draw(st.sampled_from(list(film_kinds)))
    nterm = draw(st.integers(*terminals))
    nholes = draw(st.integers(*holes))
    cx, cy = draw(st.sampled_from([(0.0, 0.0), (0.0, 0.0), (3.0, -2.0), (-10.0, 7.5)]))
    cx, cy = cx * xi, cy * xi
    rot = draw(st.sampled_from([0, 0, 0, 90, 30, -45, 180])) if allow_rot else 0
    lo, hi = size
    wlo = lo
    if nholes:
        lo = max(lo, 7.0)
        wlo = lo if nholes == 1 else 9.0
        hi = max(hi, lo + 1.5)
    mel = draw(rf(min_mel, max_mel)) * xi
    spec = dict(lu=lu or draw(st.sampled_from(LENGTH_UNITS)), layer=lay, holes=[], terminals=[])
    origin = [cx, cy]

    def finish(shape):
        if rot:
            shape["rot"] = rot
            shape["rot_origin"] = origin
        return shape

    if kind in ("box", "union"):
        W = draw(rf(wlo, max(hi, wlo) + 2)) * xi
        H = draw(rf(lo, hi)) * xi
        pts = draw(st.integers(24, 72))
        film = dict(kind="box", w=W, h=H, points=pts, center=[cx, cy])
        if draw(st.booleans()):
            film["reverse"] = True
        if kind == "union":
            # a second, smaller box whose centre lies inside the first (guaranteed overlap)
            w2 = draw(rf(0.3, 0.6)) * W
            h2 = draw(rf(0.5, 0.9)) * H
            sx = draw(rf(-0.45, 0.45)) * W
            sy = draw(st.sampled_from([-0.5, 0.5])) * H
            film = dict(kind="union", parts=[film, dict(kind="box", w=w2, h=h2, points=draw(st.integers(16, 40)),
                                                          center=[cx + sx, cy + sy])])
        elif draw(st.integers(0, 4)) == 0:
            film["resample"] = draw(st.integers(30, 90))
        spec["film"] = finish(film)
        halfw, halfh = W / 2, H / 2
        # ---- terminals on distinct sides
        if nterm:
            sides = draw(st.permutations(["L", "R", "T", "B"]))[:nterm]
            if kind == "union":
                # keep terminals off the side carrying the bump
                sides = [s for s in ["L", "R", "T", "B"] if not (s == "T" and sy > 0) and not (s == "B" and sy < 0)][:nterm]
            for i, s in enumerate(sorted(sides)):
                side_len = H if s in "LR" else W
                frac = draw(rf(0.3, 0.8))
                off = draw(rf(-0.08, 0.08)) * side_len
                tw = frac * side_len
                th = 0.5 * xi
                if s == "L":
                    c, w, h = [cx - halfw, cy + off], th, tw
                elif s == "R":
                    c, w, h = [cx + halfw, cy + off], th, tw
                elif s == "T":
                    c, w, h = [cx + off, cy + halfh], tw, th
                else:
                    c, w, h = [cx + off, cy - halfh], tw, th
                spec["terminals"].append(dict(name=f"t{i}_{s}", width=tw,
                                              shape=finish(dict(kind="box", w=w, h=h, points=16, center=c))))
        ext = (halfw, halfh)
    else:
        a = draw(rf(wlo / 2 + 0.5, max(hi, wlo) / 2 + 1.5)) * xi
        b = draw(rf(lo / 2, hi / 2)) * xi
        pts = draw(st.integers(28, 80))
        film = dict(kind="ellipse", a=a, b=b, points=pts, center=[cx, cy])
        if draw(st.booleans()):
            film["reverse"] = True
        spec["film"] = finish(film)
        if nterm:
            base = draw(rf(0.0, 6.28))
            per = math.pi * (3 * (a + b) - math.sqrt((3 * a + b) * (a + 3 * b)))
            for i in range(nterm):
                th_i = base + 2 * math.pi * i / nterm + draw(rf(-0.25, 0.25))
                rloc = (a * a * math.sin(th_i) ** 2 + b * b * math.cos(th_i) ** 2) ** 1.5 / (a * b)
                tw = min(draw(rf(0.18, 0.4)) * per / nterm, 0.9 * rloc, 1.2 * b)
                thick = 2 * (tw * tw / (8 * rloc) + 0.3 * xi)
                px, py = cx + a * math.cos(th_i), cy + b * math.sin(th_i)
                tang = math.degrees(math.atan2(b * math.cos(th_i), -a * math.sin(th_i)))
                shape = dict(kind="box", w=tw, h=thick, points=16, center=[0.0, 0.0], rot=tang,
                             rot_origin=[0.0, 0.0], shift=[px, py])
                if rot:
                    # rotate the placed terminal together with the film: express as points
                    shape["post_rot"] = rot
                    shape["post_origin"] = origin
                spec["terminals"].append(dict(name=f"t{i}", width=tw, shape=shape))
        ext = (a * 0.8, b * 0.8)
    # ---- holes
    for j in range(nholes):
        if nholes == 1:
            fx = draw(rf(-0.1, 0.1))
        else:
            fx = (-0.25 if j == 0 else 0.25) + draw(rf(-0.02, 0.02))
        fy = draw(rf(-0.1, 0.1))
        hx, hy = cx + fx * 2 * ext[0], cy + fy * 2 * ext[1]
        r = draw(rf(0.7, 1.3 if nholes == 1 else 1.0)) * xi
        hk = draw(st.sampled_from(["ellipse", "box", "L"] if lshape else ["ellipse", "box"]))
        hp = draw(st.integers(12, 28))
        if hk == "ellipse":
            hs = dict(kind="ellipse", a=r, b=draw(rf(0.6, 1.0)) * r, points=hp, center=[hx, hy])
        elif hk == "box":
            hs = dict(kind="box", w=1.6 * r, h=draw(rf(1.0, 1.6)) * r, points=hp, center=[hx, hy])
        else:
            hs = dict(kind="union", parts=[
                dict(kind="box", w=2 * r, h=0.4 * r, points=hp, center=[hx, hy - 0.8 * r]),
                dict(kind="box", w=0.4 * r, h=2 * r, points=hp, center=[hx - 0.8 * r, hy]),
            ])
        spec["holes"].append(finish(hs))
    # ---- probes
    npr = draw(st.sampled_from(list(probes)))
    if npr:
        cand = [(-0.36, 0.33), (0.36, -0.33), (0.0, 0.38), (0.33, 0.3), (-0.3, -0.36)]
        start = draw(st.integers(0, len(cand) - 1))
        pr = []
        for k in range(npr):
            fx, fy = cand[(start + k) % len(cand)]
            p = [cx + fx * 2 * ext[0] * (0.9 if kind == "ellipse" else 1.0), cy + fy * 2 * ext[1] * (0.9 if kind == "ellipse" else 1.0)]
            pr.append(_rot(p, rot, origin) if rot else p)
        spec["probes"] = pr
    sm = draw(st.sampled_from([0, 0, 0, 1, 3, 8])) if smooth else 0
    spec["mesh"] = dict(max_edge_length=mel, min_points=draw(st.sampled_from([None, None, None, 150])), smooth=sm)
    return spec


def valid_device(spec):
    """Reject (rare) specs whose probes fall into / next to a hole.  Pure geometry of the harness."""
    from .build import make_polygon

    pr = spec.get("probes")
    if not pr:
        return True
    xi = spec["layer"]["xi"]
    for h in spec.get("holes", []):
        pts = make_polygon(h, name="h").points
        if np.any(orc.winding_contains(pts, pr)) or np.any(orc.dist_to_polyline(pts, pr) < 0.4 * xi):
            return False
    return True


@st.composite
def currents(draw, dspec, current_units, kinds=("dict", "callable"), allow_zero=True, jmax=0.35, generic=False):
    """Balanced terminal currents: integer multiples of a decimal quantum, exact sum zero."""
    terms = dspec["terminals"]
    if len(terms) < 2 or (allow_zero and draw(st.integers(0, 5)) == 0):
        return None
    lay = dspec["layer"]
    sc = orc.si_scales(lay["xi"], lay["lam"], lay["d"], dspec["lu"])
    wmin = min(t["width"] for t in terms) * orc.LENGTH[dspec["lu"]]
    # current (in user units) that gives a dimensionless density ~jmax/9 per multiplier unit
    i_unit = (jmax / 9.0) * (sc["K0"] / 4.0) * wmin / orc.CURRENT[current_units]
    e = math.floor(math.log10(i_unit))
    quantum = f"1e{e}" if draw(st.booleans()) else f"{draw(st.sampled_from([1, 2, 3, 7]))}e{e - 1}"
    n = len(terms)
    m = [draw(st.integers(-9, 9)) for _ in range(n - 1)]
    if all(v == 0 for v in m):
        m[0] = draw(st.sampled_from([1, 2, 3, -3, 7]))
    last = -sum(m)
    mult = {t["name"]: v for t, v in zip(terms, m + [last])}
    cs = dict(kind=draw(st.sampled_from(list(kinds))), quantum=quantum, mult=mult)
    if generic and n >= 3 and (generic == "always" or draw(st.booleans())):
        # generic floats: partial sums depend on the order of summation in the last bit
        vals = [draw(st.floats(-1.0, 1.0)) * 9 * float(quantum) for _ in range(n - 1)]
        tot = 0.0
        for v in vals:
            tot += v
        cs["generic"] = {t["name"]: v for t, v in zip(terms, vals + [-tot])}
        # handed over as Python floats or as NumPy scalars (e.g. taken from an array of sweep values): Python >= 3.12 sums
        # plain floats with compensation, NumPy scalars in plain left-to-right order
        cs["numpy"] = draw(st.booleans()) if generic != "always" else draw(st.integers(0, 3)) > 0
    if cs["kind"] == "callable":
        cs["profile"] = draw(st.sampled_from(["ramp", "step", "sine", "pulse", "const", "const"]))
        if n >= 3 and draw(st.booleans()):
            # current moved between two terminals with its own time profile while the others keep theirs
            a, b = draw(st.permutations([t["name"] for t in terms]))[:2]
            cs["shift"] = {"from": a, "to": b, "mult": draw(st.integers(1, 6)), "profile": draw(st.sampled_from(["stairs", "stairs", "ramp", "step"])),
                           "t0_frac": draw(rf(0.1, 0.6)), "t0": draw(rf(0.02, 2.0))}
        # switching time as a fraction of the run (builders that know solve_time use it), with an absolute fallback
        cs["t0_frac"] = draw(rf(0.1, 0.6))
        cs["t0"] = draw(rf(0.02, 2.0))
        # the callable returns a new dict per call, or one dict object that it updates in place
        cs["same_dict"] = draw(st.integers(0, 3)) == 0
    return cs


@st.composite
def field(draw, dspec, field_units, kinds=("zero", "float", "constant", "gauge_param", "ramp"), bmax=0.5):
    lay = dspec["layer"]
    sc = orc.si_scales(lay["xi"], lay["lam"], lay["d"], dspec["lu"])
    k = draw(st.sampled_from(list(kinds)))
    if k == "zero":
        return dict(kind="zero")
    b = draw(rf(0.02, bmax)) * draw(st.sampled_from([1, 1, -1]))
    B = float(f"{b * sc['Bc2'] / orc.FIELD[field_units]:.3g}")
    out = dict(kind=k, B=B)
    if k in ("ramp", "ramp_gauge"):
        out["tmax"] = draw(st.one_of(logu(-2, 0), logu(-1, 0), rf(1.0, 3.0)))  # 0.01 .. 3: about half of the ramps end within the run
        out["tmax_frac"] = draw(rf(0.15, 1.5))  # used instead of tmax by builders that know the length of the run
        out["initial"] = draw(st.sampled_from([0.0, 0.0, 0.5, 1.0]))
        # also slow ramps: the potential changes by a tiny relative amount per step
        # ... and ramps that end at exactly zero field after a non-zero start (the field is switched off during the run)
        out["final"] = draw(st.sampled_from([1.0, 1.0, -1.0, out["initial"] + 1e-3, out["initial"] + 2e-5] + ([0.0, 0.0, 0.0] if out["initial"] else [])))
    return out
