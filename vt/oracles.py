"""Independent reference computations shared by the property checks.

Nothing here imports the code under test: geometry predicates are written from scratch,
physical constants come from scipy.constants, unit conversion is an explicit table.
"""
from __future__ import annotations

import hashlib

import numpy as np
import scipy.constants as sc

PHI0 = sc.physical_constants["mag. flux quantum"][0]  # Wb
MU0 = sc.mu_0

LENGTH = {"um": 1e-6, "nm": 1e-9, "mm": 1e-3}
FIELD = {"mT": 1e-3, "uT": 1e-6, "T": 1.0}
CURRENT = {"uA": 1e-6, "nA": 1e-9, "mA": 1e-3, "A": 1.0}


# ----------------------------------------------------------------------------- SI scales


def si_scales(xi, lam, d, length_units):
    """Bc2 [T], A0 [T m], K0 [A/m] for a layer given in ``length_units``."""
    L = LENGTH[length_units]
    xi_m, lam_m, d_m = xi * L, lam * L, d * L
    Bc2 = PHI0 / (2 * np.pi * xi_m**2)
    A0 = xi_m * Bc2
    Lambda = lam_m**2 / d_m
    K0 = 4 * xi_m * Bc2 / (MU0 * Lambda)
    return dict(Bc2=Bc2, A0=A0, K0=K0, xi_m=xi_m, Lambda=Lambda)


# ----------------------------------------------------------------------------- geometry


def shoelace(pts):
    """Signed area of a polygon (closed or not)."""
    p = np.asarray(pts, dtype=float)
    if np.allclose(p[0], p[-1]):
        p = p[:-1]
    x, y = p[:, 0], p[:, 1]
    return 0.5 * float(np.sum(x * np.roll(y, -1) - np.roll(x, -1) * y))


def winding_contains(poly, pts):
    """Point-in-polygon by winding number (non-zero rule), vectorised over points."""
    p = np.asarray(poly, dtype=float)
    if not np.allclose(p[0], p[-1]):
        p = np.vstack([p, p[:1]])
    q = np.atleast_2d(np.asarray(pts, dtype=float))
    wn = np.zeros(len(q), dtype=int)
    x, y = q[:, 0], q[:, 1]
    for (x0, y0), (x1, y1) in zip(p[:-1], p[1:]):
        is_left = (x1 - x0) * (y - y0) - (x - x0) * (y1 - y0)
        up = (y0 <= y) & (y1 > y) & (is_left > 0)
        dn = (y0 > y) & (y1 <= y) & (is_left < 0)
        wn += up.astype(int) - dn.astype(int)
    return wn != 0


def dist_to_polyline(poly, pts):
    """Distance from each point to the closed polygon boundary."""
    p = np.asarray(poly, dtype=float)
    if not np.allclose(p[0], p[-1]):
        p = np.vstack([p, p[:1]])
    q = np.atleast_2d(np.asarray(pts, dtype=float))
    best = np.full(len(q), np.inf)
    for a, b in zip(p[:-1], p[1:]):
        ab = b - a
        L2 = float(ab @ ab)
        if L2 == 0:
            d = np.linalg.norm(q - a, axis=1)
        else:
            t = np.clip(((q - a) @ ab) / L2, 0, 1)
            d = np.linalg.norm(q - (a + t[:, None] * ab), axis=1)
        best = np.minimum(best, d)
    return best


def polygon_perimeter_inside(poly, region):
    """Length of the boundary of ``poly`` lying inside the polygon ``region`` (sampling-free):
    every segment is clipped against region by bisection on a fine subdivision."""
    p = np.asarray(poly, dtype=float)
    if not np.allclose(p[0], p[-1]):
        p = np.vstack([p, p[:1]])
    total = 0.0
    for a, b in zip(p[:-1], p[1:]):
        n = 64
        t = (np.arange(n) + 0.5) / n
        mid = a[None, :] + t[:, None] * (b - a)[None, :]
        total += float(np.mean(winding_contains(region, mid))) * float(np.linalg.norm(b - a))
    return total


# ----------------------------------------------------------------------------- mesh helpers


def gershgorin_rho(mesh):
    """max_i 2 * sum_j w_ij / a_i : bound on the spectral radius of the scalar Laplacian."""
    em = mesh.edge_mesh
    w = em.dual_edge_lengths / em.edge_lengths
    s = np.zeros(len(mesh.sites))
    np.add.at(s, em.edges[:, 0], w)
    np.add.at(s, em.edges[:, 1], w)
    return float(np.max(2 * s / mesh.areas))


def my_divergence(mesh, edge_field):
    """(div F)_i assembled from edges, dual lengths and cell areas (harness's own assembly)."""
    em = mesh.edge_mesh
    flux = np.asarray(edge_field) * em.dual_edge_lengths
    out = np.zeros(len(mesh.sites), dtype=flux.dtype)
    np.add.at(out, em.edges[:, 0], flux)
    np.add.at(out, em.edges[:, 1], -flux)
    return out / mesh.areas


# ----------------------------------------------------------------------------- digests / comparison


def digest(*arrays) -> str:
    h = hashlib.sha256()
    for a in arrays:
        a = np.ascontiguousarray(np.asarray(a))
        h.update(str(a.dtype).encode())
        h.update(str(a.shape).encode())
        h.update(a.tobytes())
    return h.hexdigest()[:24]


def best_global_phase(psi_a, psi_b):
    """phase phi minimising |psi_a - psi_b e^{i phi}|."""
    s = np.vdot(psi_b, psi_a)
    return 0.0 if abs(s) == 0 else float(np.angle(s))


def compare_frames(fa, fb, gauge_phase=None):
    """Observable comparison between two frames (dicts of arrays): returns residual dict.
    mu is compared up to an additive constant, psi up to a known gauge phase and a free
    global phase."""
    out = {}
    pa, pb = np.asarray(fa["psi"]), np.asarray(fb["psi"])
    out["abs_psi"] = float(np.max(np.abs(np.abs(pa) - np.abs(pb))))
    pbg = pb * np.exp(-1j * gauge_phase) if gauge_phase is not None else pb
    phi = best_global_phase(pa, pbg)
    out["psi_mod_phase"] = float(np.max(np.abs(pa - pbg * np.exp(1j * phi))))
    ma, mb = np.asarray(fa["mu"]), np.asarray(fb["mu"])
    out["mu_minus_mean"] = float(np.max(np.abs((ma - ma.mean()) - (mb - mb.mean()))))
    for k in ("supercurrent", "normal_current"):
        out[k] = float(np.max(np.abs(np.asarray(fa[k]) - np.asarray(fb[k]))))
    return out
