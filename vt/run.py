import logging
import sys
import warnings

logging.disable(logging.CRITICAL)
warnings.filterwarnings("ignore")

from vt.engine import main  # noqa: E402

if __name__ == "__main__":
    sys.exit(main())
